#!/usr/bin/env python3
"""Prints the prompt given to an independent sub-agent for one property.
The prompt contains only the property text and the path of a scratch worktree."""
import json, sys
pid = sys.argv[1]
n = sys.argv[2] if len(sys.argv) > 2 else "3"
props = {json.loads(l)["id"]: json.loads(l) for l in open("/verif/properties.jsonl") if l.strip()}
p = props[pid]
rnd = sys.argv[3] if len(sys.argv) > 3 else ""
wt = f"/tmp/seed/{pid}{rnd}"
import glob, os
known = []
if rnd:
    for mp in sorted(glob.glob(f"/verif/seeded/{pid}-*/meta.json")):
        known.append(json.load(open(mp)).get("summary") or "")
avoid = ""
if known:
    avoid = "\n\nChanges of the following kinds have ALREADY been produced by earlier rounds; yours must use different mechanisms, different functions or need different triggers:\n" + "\n".join(f"  - {k[:400]}" for k in known)
print(f"""You are helping to evaluate a verification effort by playing the role of a developer who introduces a subtle regression into a Go library. Work ONLY inside the scratch git worktree {wt} (a checkout of DataDog/sketches-go, a Go implementation of the DDSketch quantile sketch). Do not read or write anything under /repo or /verif. Every shell command needs: export GOFLAGS=-mod=mod GOPROXY=off GOSUMDB=off GOTOOLCHAIN=local (the sandbox is offline; nothing can be downloaded).

The library is supposed to satisfy this property:

  Title: {p['title']}
  Statement: {p['statement']}
  Quantified over: {p['quantifier']['text']}
  Code involved: {', '.join(p['anchors']['files'])}

Your task: produce {n} DIFFERENT, independent source changes (different mechanisms / different functions), each of which
  (a) breaks this property in a realistic way - the kind of mistake a refactoring, an optimisation or an off-by-one could introduce, touching non-test .go files only;
  (b) still compiles (go build ./... and go vet ./... in the worktree) and still passes the ENTIRE existing test suite unchanged: run `go test -vet=off -count=1 -timeout 25m ./...` in the worktree with the change applied (the store package alone takes about 4-5 minutes; run it to completion and check every package says ok; IMPORTANT: before running the suite move your out/ directory aside, e.g. rename it to .out_hidden, so that its demo files are not compiled as part of ./..., and move it back afterwards);
  (c) needs something specific to manifest - a particular multi-step sequence of operations, an unusual input (boundary index, special weight, particular store kind pair, empty/cleared object, specific size threshold), or two cooperating sites that each look fine alone - rather than being exposed at once by ordinary use. Prefer changes in shared mutable state, cursor/offset/bounds logic, reuse of cleared memory, fast paths vs fallbacks.
  Do not produce changes that merely alter documentation, error message text, performance, or that break compilation of reasonable client code. Do not special-case magic constants in a way no developer would write.{avoid}

For each change k = 1..{n} write, under {wt}/out/k/ (create the directories; they are untracked):
  - patch.diff : the change as `git diff` output relative to the worktree's HEAD (must apply with `git apply` at the repository root);
  - demo_test.go : a self-contained Go test file (package ddsketch_test, store_test, etc. - say in a first-line comment which package directory it must be copied into) whose test FAILS with the change applied and PASSES without it; it must only use the library's public API (or be an in-package test if it needs to be) and must be deterministic;
  - meta.json : {{"property": "{pid}", "summary": "...what the change does...", "needs": "...what specific sequence/input/state is needed for it to manifest...", "files": [...], "suite_passed": true/false, "demo_fails_with_patch": true/false, "demo_passes_without_patch": true/false, "commands_run": [...]}}.
Verify (b) and the demo's fail/pass behaviour yourself by actually running the commands, and record the truth in meta.json. After producing each patch, restore the worktree's tracked files (git checkout -- .) so that the next change starts from the clean HEAD; never commit. If a candidate change turns out to be caught by the existing suite, discard it and design another one. Finish with a short summary of the {n} changes (one line each).""")
