#!/bin/bash
# Development aid: runs quick checks against every behaviour-preserving patch of
# benign/ (each applied to a scratch worktree of /repo HEAD through
# tools/seedtest.sh); every line must say exit=0.
#   [BENIGN_FILTER=substring] tools/benigntest.sh [check ids...]      (default: the checks named in benign/README.md for that patch)
cd /verif
bad=0
for p in benign/*.diff; do
  n=$(basename "$p" .diff)
  case "$n" in *${BENIGN_FILTER:-}*) ;; *) continue ;; esac
  if [ $# -gt 0 ]; then list="$*"; else
    list=$(grep -F "| ${n} |" benign/README.md | awk -F'|' '{print $(NF-1)}' | sed 's/C04-C17/C04 C05 C06 C07 C08 C09 C10 C11 C12 C13 C14 C15 C16 C17/; s/C04-C16/C04 C05 C06 C07 C08 C09 C10 C11 C12 C13 C14 C15 C16/')
  fi
  [ -z "$list" ] && list="C01 C04 C12"
  echo "== $n: $list"
  out=$(tools/seedtest.sh "$p" $list 2>&1)
  echo "$out" | grep -E '^C[0-9]+ exit=' | cut -c1-160
  echo "$out" | grep -qE '^C[0-9]+ exit=[^0]' && bad=1
done
exit $bad
