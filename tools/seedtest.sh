#!/bin/bash
# Development aid: run quick checks against a scratch worktree of /repo with one
# seeded change applied, without touching /repo.
#   tools/seedtest.sh <patch.diff> <check ids...>
# Prints one line per check: <id> exit=<code>. The worktree is removed afterwards.
set -u
PATCH="$(realpath "$1")"; shift
NAME="swt-$$"
WT="/tmp/$NAME"
git -C /repo worktree add -q --detach "$WT" HEAD || exit 2
trap 'git -C /repo worktree remove --force "$WT" 2>/dev/null; rm -rf "$WT.out"' EXIT
git -C "$WT" apply "$PATCH" || { echo "patch does not apply"; exit 2; }
mkdir -p "$WT.out"
for id in "$@"; do
  out=$(VERIF_REPO="$WT" VERIF_OUT="$WT.out" /verif/bin/check.sh "$id" quick 2>&1)
  code=$?
  first=$(echo "$out" | grep -m1 -A2 '^VIOLATION' | tr '\n' ' ' | cut -c1-300)
  internal=$(echo "$out" | grep -c "INTERNAL:")
  echo "$id exit=$code internal=$internal $first"
done
