#!/bin/bash
# Confirms a seeded change in a scratch worktree: the repository's suite still
# passes with it, its demonstration fails with it and passes without it.
#   tools/seedvalidate.sh <seed dir with patch.diff demo_test.go> <package dir for the demo> > result
set -u
export GOFLAGS=-mod=mod GOPROXY=off GOSUMDB=off GOTOOLCHAIN=local
SD="$1"; PKG="$2"
WT="/tmp/sval-$$"
git -C /repo worktree add -q --detach "$WT" HEAD || exit 2
trap 'git -C /repo worktree remove --force "$WT" 2>/dev/null' EXIT
cd "$WT"
git apply "$SD/patch.diff" || { echo "RESULT apply=fail"; exit 1; }
go build ./... && go vet ./... > /dev/null 2>&1; echo "build_vet=$?"
go test -vet=off -count=1 -timeout 25m ./... > "$WT/suite.log" 2>&1; SUITE=$?
grep -v '^ok\|no test files' "$WT/suite.log" | head -5
cp "$SD/demo_test.go" "$PKG/zz_seed_demo_test.go"
go test -vet=off -count=1 -run "$(grep -o 'func Test[A-Za-z0-9_]*' "$SD/demo_test.go" | sed 's/func //' | paste -sd'|')" "./$PKG/" > "$WT/demo_with.log" 2>&1; WITH=$?
git checkout -q -- . 
go test -vet=off -count=1 -run "$(grep -o 'func Test[A-Za-z0-9_]*' "$SD/demo_test.go" | sed 's/func //' | paste -sd'|')" "./$PKG/" > "$WT/demo_without.log" 2>&1; WITHOUT=$?
echo "RESULT suite_exit=$SUITE demo_with_patch_exit=$WITH demo_without_patch_exit=$WITHOUT"
