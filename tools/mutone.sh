#!/bin/bash
# Development aid: apply one mutant of notes/mutants.jsonl (by id) to a scratch worktree and run quick checks.
#   tools/mutone.sh <id> <check ids...>
set -u
ID="$1"; shift
WT="/tmp/mutone-$$"
git -C /repo worktree add -q --detach "$WT" HEAD || exit 2
trap 'git -C /repo worktree remove --force "$WT" 2>/dev/null; rm -rf "$WT.out"' EXIT
python3 - "$ID" "$WT" <<'PY'
import json,sys
mid,wt=int(sys.argv[1]),sys.argv[2]
for l in open('/verif/notes/mutants.jsonl'):
    m=json.loads(l)
    if m['id']==mid:
        p=wt+'/'+m['file']; src=open(p,'rb').read()
        assert src[m['off']:m['off']+m['len']].decode()==m['old']
        open(p,'wb').write(src[:m['off']]+m['new'].encode()+src[m['off']+m['len']:])
        print('mutant',mid,m['file'],m['line'],repr(m['old']),'->',repr(m['new']),'|',m['source'])
PY
mkdir -p "$WT.out"
for id in "$@"; do
  out=$(VERIF_REPO="$WT" VERIF_OUT="$WT.out" /verif/bin/check.sh "$id" quick 2>&1)
  code=$?
  first=$(echo "$out" | grep -m1 -A3 '^VIOLATION' | tr '\n' ' ' | cut -c1-400)
  echo "$id exit=$code $first"
done
