// mutgen lists small source mutations of the repository (one token or one
// statement each) as JSON lines. It is a development aid used to measure which
// realistic one-site changes the checks of /verif detect (tools/mutcampaign.py);
// nothing here decides a property.
//
//	go run ./tools/mutgen <repo root> > mutants.jsonl
package main

import (
	"encoding/json"
	"fmt"
	"go/ast"
	"go/parser"
	"go/token"
	"os"
	"path/filepath"
	"sort"
	"strconv"
	"strings"
)

type Mutant struct {
	ID     int    `json:"id"`
	File   string `json:"file"`
	Line   int    `json:"line"`
	Func   string `json:"func"`
	Kind   string `json:"kind"`
	Off    int    `json:"off"`
	Len    int    `json:"len"`
	Old    string `json:"old"`
	New    string `json:"new"`
	Source string `json:"source"`
}

var swaps = map[token.Token][]string{
	token.LSS: {"<="}, token.LEQ: {"<"}, token.GTR: {">="}, token.GEQ: {">"},
	token.EQL: {"!="}, token.NEQ: {"=="},
	token.LAND: {"||"}, token.LOR: {"&&"},
	token.ADD: {"-"}, token.SUB: {"+"}, token.MUL: {"/"}, token.QUO: {"*"},
	token.SHL: {">>"}, token.SHR: {"<<"},
}
var assignSwaps = map[token.Token]string{
	token.ADD_ASSIGN: "-=", token.SUB_ASSIGN: "+=", token.MUL_ASSIGN: "/=", token.QUO_ASSIGN: "*=",
}

func main() {
	root := os.Args[1]
	var files []string
	for _, dir := range []string{"ddsketch", "ddsketch/store", "ddsketch/mapping", "ddsketch/encoding", "ddsketch/stat", "dataset", "ddsketch/pb/sketchpb"} {
		ms, _ := filepath.Glob(filepath.Join(root, dir, "*.go"))
		for _, m := range ms {
			if strings.HasSuffix(m, "_test.go") || strings.HasSuffix(m, ".pb.go") || strings.HasSuffix(m, "generator.go") {
				continue
			}
			files = append(files, m)
		}
	}
	sort.Strings(files)
	var out []Mutant
	for _, f := range files {
		src, err := os.ReadFile(f)
		if err != nil {
			panic(err)
		}
		fset := token.NewFileSet()
		af, err := parser.ParseFile(fset, f, src, 0)
		if err != nil {
			panic(err)
		}
		rel, _ := filepath.Rel(root, f)
		lines := strings.Split(string(src), "\n")
		add := func(pos token.Pos, n int, neu, kind, fn string) {
			p := fset.Position(pos)
			out = append(out, Mutant{File: rel, Line: p.Line, Func: fn, Kind: kind, Off: p.Offset, Len: n,
				Old: string(src[p.Offset : p.Offset+n]), New: neu, Source: strings.TrimSpace(lines[p.Line-1])})
		}
		for _, decl := range af.Decls {
			fd, ok := decl.(*ast.FuncDecl)
			if !ok || fd.Body == nil {
				continue
			}
			fn := fd.Name.Name
			if fd.Recv != nil && len(fd.Recv.List) > 0 {
				t := fd.Recv.List[0].Type
				if s, ok := t.(*ast.StarExpr); ok {
					t = s.X
				}
				if id, ok := t.(*ast.Ident); ok {
					fn = id.Name + "." + fn
				}
			}
			if strings.HasSuffix(fn, ".String") || strings.HasSuffix(fn, "string") {
				continue
			}
			ast.Inspect(fd.Body, func(n ast.Node) bool {
				switch x := n.(type) {
				case *ast.BinaryExpr:
					for _, neu := range swaps[x.Op] {
						// string concatenation is not arithmetic
						if x.Op == token.ADD {
							if bl, ok := x.X.(*ast.BasicLit); ok && bl.Kind == token.STRING {
								continue
							}
							if bl, ok := x.Y.(*ast.BasicLit); ok && bl.Kind == token.STRING {
								continue
							}
						}
						add(x.OpPos, len(x.Op.String()), neu, "binop", fn)
					}
				case *ast.IncDecStmt:
					if x.Tok == token.INC {
						add(x.TokPos, 2, "--", "incdec", fn)
					} else {
						add(x.TokPos, 2, "++", "incdec", fn)
					}
				case *ast.AssignStmt:
					if neu, ok := assignSwaps[x.Tok]; ok {
						add(x.TokPos, 2, neu, "opassign", fn)
					}
					if x.Tok != token.DEFINE {
						// delete the assignment
						add(x.Pos(), int(x.End()-x.Pos()), "{}", "delstmt", fn)
					}
				case *ast.ExprStmt:
					add(x.Pos(), int(x.End()-x.Pos()), "{}", "delstmt", fn)
				case *ast.BasicLit:
					if x.Kind == token.INT {
						if v, err := strconv.ParseInt(x.Value, 0, 64); err == nil && v >= 0 && v <= 4096 {
							add(x.Pos(), len(x.Value), strconv.FormatInt(v+1, 10), "int+1", fn)
							if v > 0 {
								add(x.Pos(), len(x.Value), strconv.FormatInt(v-1, 10), "int-1", fn)
							}
						}
					}
				case *ast.IfStmt:
					// negate a condition that is not a plain comparison (those are covered by the swaps)
					if be, ok := x.Cond.(*ast.BinaryExpr); !ok || (be.Op != token.EQL && be.Op != token.NEQ && be.Op != token.LSS && be.Op != token.LEQ && be.Op != token.GTR && be.Op != token.GEQ) {
						s := string(src[fset.Position(x.Cond.Pos()).Offset:fset.Position(x.Cond.End()).Offset])
						add(x.Cond.Pos(), len(s), "!("+s+")", "negcond", fn)
					}
					// drop an else-less early exit entirely: if c { return/continue/break }
					if x.Else == nil && len(x.Body.List) == 1 {
						switch x.Body.List[0].(type) {
						case *ast.ReturnStmt, *ast.BranchStmt:
							s := string(src[fset.Position(x.Cond.Pos()).Offset:fset.Position(x.Cond.End()).Offset])
							add(x.Cond.Pos(), len(s), "false && ("+s+")", "dropexit", fn)
						}
					}
				case *ast.Ident:
					if x.Name == "true" {
						add(x.Pos(), 4, "false", "bool", fn)
					} else if x.Name == "false" {
						add(x.Pos(), 5, "true", "bool", fn)
					}
				case *ast.UnaryExpr:
					if x.Op == token.SUB {
						add(x.OpPos, 1, "+", "unary", fn)
					} else if x.Op == token.NOT {
						add(x.OpPos, 1, "", "unary", fn)
					}
				}
				return true
			})
		}
	}
	enc := json.NewEncoder(os.Stdout)
	for i := range out {
		out[i].ID = i
		if err := enc.Encode(out[i]); err != nil {
			panic(err)
		}
	}
	fmt.Fprintf(os.Stderr, "%d mutants in %d files\n", len(out), len(files))
}
