#!/usr/bin/env python3
"""Writes notes/mutation-survivors.md from a campaign result file and notes/mutation-classification.json."""
import json, sys, collections, os
res = sys.argv[1] if len(sys.argv) > 1 else "/tmp/mutres/results.jsonl"
cls = json.load(open("/verif/notes/mutation-classification.json"))
rs = [json.loads(l) for l in open(res)]
cnt = collections.Counter(r["status"] for r in rs)
out = ["# One-site mutations of /repo against the quick checks", "",
       f"{len(rs)} mutants run so far (tools/mutgen, tools/mutcampaign.py): " + ", ".join(f"{v} {k}" for k, v in sorted(cnt.items())) + ".",
       "A mutant is *detected* when a quick check relevant to its file exits 1 on it; survivors are classified by hand below", "",
       "| id | site | change | class | why |", "|---|---|---|---|---|"]
un = 0
for r in rs:
    if r["status"] in ("detected", "nocompile", "harness-nocompile"):
        continue
    c = cls.get(str(r["id"]), ["unclassified", ""])
    un += c[0] == "unclassified"
    out.append(f"| {r['id']} | {r['file']}:{r['line']} {r['func']} | `{r['old']}` -> `{r['new']}` | {c[0]} | {c[1]} |")
out += ["", f"Unclassified: {un}."]
open("/verif/notes/mutation-survivors.md", "w").write("\n".join(out) + "\n")
print("\n".join(out[-12:]))
