#!/usr/bin/env python3
"""Development aid: measures which one-site source mutations of /repo (tools/mutgen) the quick checks detect.

Phase 1 (per mutant, in a scratch worktree of /repo HEAD under /tmp): apply, `go build`; run the quick checks
relevant to the mutated file in order, stop at the first that exits 1.
Phase 2 (only for mutants no relevant check detected): run the repository's own suite; if it passes too, run
every remaining check. What is left is either an equivalent mutant or a gap; those are reviewed by hand.

  tools/mutcampaign.py --mutants FILE --out DIR [--lanes 3] [--workers 5] [--select EXPR] [--phase2]

Nothing is written to /repo; worktrees are removed at the end. Results: DIR/results.jsonl (one line per mutant).
"""
import argparse, json, os, subprocess, sys, threading, time, queue, shutil

ENV = dict(os.environ, GOFLAGS="-mod=mod", GOPROXY="off", GOSUMDB="off", GOTOOLCHAIN="local")
VERIF = os.path.dirname(os.path.dirname(os.path.abspath(__file__)))
ALL = ["C%02d" % i for i in range(1, 21)]
ORDER = {
    "ddsketch/store/collapsing": ["C05", "C15", "C14", "C16", "C06"],
    "ddsketch/store/": ["C04", "C15", "C14", "C06", "C09", "C16", "C05", "C07", "C13"],
    "ddsketch/ddsketch.go": ["C01", "C09", "C13", "C02", "C11", "C10", "C12", "C17", "C06", "C07", "C08", "C14", "C16", "C15", "C05"],
    "ddsketch/mapping/": ["C19", "C01", "C17", "C09", "C13", "C03", "C06"],
    "ddsketch/encoding/": ["C18", "C07", "C06", "C08"],
    "ddsketch/stat/": ["C10", "C20", "C16", "C15", "C14", "C17", "C13"],
    "dataset/": ["C20"],
    "ddsketch/pb/": ["C09", "C19"],
}

# the checks most likely to judge a function come first
FUNC_FIRST = [
    ("hangeMapping", ["C17", "C10", "C14"]), ("changeStoreMapping", ["C17"]), ("Rescale", ["C17", "C10"]),
    ("Reweight", ["C16", "C11", "C13"]), ("Clear", ["C15"]), ("Copy", ["C14"]),
    ("EncodeProto", ["C09"]), ("ToProto", ["C09"]), ("FromProto", ["C09", "C13"]), ("MergeWithProto", ["C09", "C04"]),
    ("Decode", ["C06", "C07", "C08", "C15"]), ("decode", ["C06", "C07", "C08"]), ("Encode", ["C06", "C07"]),
    ("MergeWith", ["C02", "C05", "C04"]), ("ForEach", ["C12", "C14"]), ("GetSum", ["C12"]), ("GetM", ["C12", "C10"]),
    ("GetValue", ["C01", "C11", "C13"]), ("KeyAtRank", ["C04", "C01", "C11"]), ("Bins", ["C04"]),
    ("Log", ["C05", "C01", "C12"]), ("NewD", ["C01", "C12", "C10"]),
]

def order_for(f, func=""):
    base = ALL
    for k, v in ORDER.items():
        if f.startswith(k):
            base = v
            break
    first = []
    for pat, cs in FUNC_FIRST:
        if pat in func:
            first += [c for c in cs if c not in first]
    return first + [c for c in base if c not in first]

def sh(cmd, cwd=None, timeout=None, env=None):
    try:
        p = subprocess.run(cmd, cwd=cwd, env=env or ENV, stdout=subprocess.PIPE, stderr=subprocess.STDOUT, timeout=timeout, text=True)
        return p.returncode, p.stdout
    except subprocess.TimeoutExpired as e:
        return 124, (e.stdout or "") if isinstance(e.stdout, str) else ""

def run_check(wt, outdir, cid, workers, delta=0):
    env = dict(ENV, VERIF_REPO=wt, VERIF_OUT=outdir, VERIF_WORKERS=str(workers))
    if delta:
        env["VERIF_DEPTH_DELTA"] = str(delta)
    code, out = sh([os.path.join(VERIF, "bin/check.sh"), cid, "quick"], env=env, timeout=900)
    clause = ""
    for line in out.splitlines():
        if line.strip().startswith("clause="):
            clause = line.strip()[:200]
            break
    return code, clause

def lane(k, q, args, lock, resf):
    wt = f"/tmp/mut/lane{k}"
    outdir = f"/tmp/mut/out{k}"
    subprocess.run(["git", "-C", "/repo", "worktree", "remove", "--force", wt], stdout=subprocess.DEVNULL, stderr=subprocess.DEVNULL)
    shutil.rmtree(wt, ignore_errors=True)
    subprocess.run(["git", "-C", "/repo", "worktree", "prune"])
    if subprocess.run(["git", "-C", "/repo", "worktree", "add", "-q", "--detach", wt, "HEAD"]).returncode != 0:
        print("cannot create worktree", wt, file=sys.stderr)
        return
    os.makedirs(outdir, exist_ok=True)
    try:
        while True:
            try:
                m = q.get_nowait()
            except queue.Empty:
                break
            t0 = time.time()
            path = os.path.join(wt, m["file"])
            src = open(path, "rb").read()
            assert src[m["off"]:m["off"] + m["len"]].decode() == m["old"], (m, src[m["off"]:m["off"] + m["len"]])
            open(path, "wb").write(src[:m["off"]] + m["new"].encode() + src[m["off"] + m["len"]:])
            res = dict(id=m["id"], file=m["file"], line=m["line"], func=m["func"], kind=m["kind"], old=m["old"], new=m["new"], source=m["source"])
            try:
                code, out = sh(["go", "build", "./..."], cwd=wt, timeout=300)
                if code != 0:
                    res["status"] = "nocompile"
                else:
                    res["status"] = "survived"
                    res["ran"] = []
                    todo = list(m.get("checks") or order_for(m["file"], m.get("func", "")))
                    # first pass one level shallower (cheap), second pass at the registered depth
                    for delta in (-1, 0):
                        # the pass at the registered depth only runs the four most relevant checks
                        for cid in (todo if delta else todo[:4]):
                            c, clause = run_check(wt, outdir, cid, args.workers, delta)
                            res["ran"].append(cid + ("-shallow" if delta else ""))
                            if c == 1:
                                res["status"] = "detected"; res["by"] = cid; res["clause"] = clause; res["shallow"] = bool(delta)
                                break
                            if c == 2:
                                res["status"] = "harness-nocompile"
                                break
                            if c == 124:
                                res.setdefault("timeouts", []).append(cid)
                        if res["status"] != "survived":
                            break
                    if res["status"] == "survived" and args.phase2:
                        c, out = sh(["go", "test", "-vet=off", "-count=1", "-timeout", "25m", "./..."], cwd=wt, timeout=1800)
                        res["suite"] = "pass" if c == 0 else "fail"
                        if c == 0:
                            for cid in ALL:
                                if cid in res["ran"]:
                                    continue
                                c2, clause = run_check(wt, outdir, cid, args.workers)
                                res["ran"].append(cid)
                                if c2 == 1:
                                    res["status"] = "detected-late"; res["by"] = cid; res["clause"] = clause
                                    break
            finally:
                open(path, "wb").write(src)
            res["wall"] = round(time.time() - t0, 1)
            with lock:
                resf.write(json.dumps(res) + "\n"); resf.flush()
                print(f"[{k}] #{m['id']} {m['file']}:{m['line']} {m['kind']} {m['old']!r}->{m['new']!r}: {res['status']} {res.get('by','')} {res.get('suite','')} {res['wall']}s", flush=True)
    finally:
        subprocess.run(["git", "-C", "/repo", "worktree", "remove", "--force", wt], stdout=subprocess.DEVNULL, stderr=subprocess.DEVNULL)
        shutil.rmtree(outdir, ignore_errors=True)

def main():
    ap = argparse.ArgumentParser()
    ap.add_argument("--mutants", required=True)
    ap.add_argument("--out", required=True)
    ap.add_argument("--lanes", type=int, default=3)
    ap.add_argument("--workers", type=int, default=5)
    ap.add_argument("--select", default="True", help="python expression over m (a mutant dict)")
    ap.add_argument("--phase2", action="store_true")
    ap.add_argument("--ids", default="", help="file with one mutant id per line (restricts the run)")
    args = ap.parse_args()
    os.makedirs(args.out, exist_ok=True)
    os.makedirs("/tmp/mut", exist_ok=True)
    ms = [json.loads(l) for l in open(args.mutants)]
    if args.ids:
        want = {int(x) for x in open(args.ids).read().split()}
        ms = [m for m in ms if m["id"] in want]
    ms = [m for m in ms if eval(args.select, {}, {"m": m})]
    done = set()
    rp = os.path.join(args.out, "results.jsonl")
    if os.path.exists(rp):
        for l in open(rp):
            done.add(json.loads(l)["id"])
    q = queue.Queue()
    for m in ms:
        if m["id"] not in done:
            q.put(m)
    print(f"{q.qsize()} mutants to run ({len(done)} already done)", flush=True)
    lock = threading.Lock()
    with open(rp, "a") as resf:
        ts = [threading.Thread(target=lane, args=(k, q, args, lock, resf)) for k in range(args.lanes)]
        for t in ts: t.start()
        for t in ts: t.join()

if __name__ == "__main__":
    main()
