#!/bin/bash
# Runs the quick checks against every seeded change (each applied to its own
# scratch worktree of /repo HEAD; /repo itself is never touched) and writes
# seeded/MATRIX.md plus the detected_by / not_detected_by fields of each meta.json.
#   tools/seedmatrix.sh [-j N] [check ids...]      (default: all 20 checks, 3 seeds at a time)
#   tools/seedmatrix.sh [-j N] --own               (each change against the check of its own property, plus
#                                                    C04 C14 C15 when it touches ddsketch/store)
set -u
J=3
if [ "${1:-}" = "-j" ]; then J="$2"; shift 2; fi
OWN=""
if [ "${1:-}" = "--own" ]; then OWN=1; shift; fi
export OWN
CHECKS=("$@")
if [ ${#CHECKS[@]} -eq 0 ]; then CHECKS=(C01 C02 C03 C04 C05 C06 C07 C08 C09 C10 C11 C12 C13 C14 C15 C16 C17 C18 C19 C20); fi
cd /verif
OUT=/tmp/seedmatrix.$$
mkdir -p "$OUT"
run_one() {
  local d="$1"; local name; name=$(basename "$d")
  if [ -n "$OWN" ]; then
    own=$(python3 -c "import json,sys; print(json.load(open('$d/meta.json'))['property'])")
    extra=""
    if grep -q '^+++ b/ddsketch/store/' "$d/patch.diff"; then extra="C04 C14 C15"; fi
    list=$(echo "$own $extra" | tr ' ' '\n' | awk 'NF && !seen[$0]++' | tr '\n' ' ')
    VERIF_WORKERS=5 tools/seedtest.sh "$d/patch.diff" $list > "$OUT/$name.txt" 2>&1
    return
  fi
  VERIF_WORKERS=5 tools/seedtest.sh "$d/patch.diff" "${CHECKS[@]}" > "$OUT/$name.txt" 2>&1
}
export -f run_one; export OUT; export CHECKS_STR="${CHECKS[*]}"
ls -d seeded/*/ | sed 's#/$##' | grep -E "${SEEDS_FILTER:-.}" | xargs -P "$J" -I{} bash -c 'CHECKS=($CHECKS_STR); run_one {}'
python3 - "$OUT" <<'PY'
import sys, os, json, re, glob
out = sys.argv[1]
checks = ["C%02d" % i for i in range(1, 21)]
rows = []
for d in sorted(glob.glob('/verif/seeded/*/')):
    name = os.path.basename(d.rstrip('/'))
    mp = os.path.join(d, 'meta.json')
    meta = json.load(open(mp))
    rp = os.path.join(out, name + '.txt')
    if os.path.exists(rp):
        res, hist = {}, {}
        for line in open(rp):
            m = re.match(r'(C\d+) exit=(\d+)(.*)', line)
            if m:
                res[m.group(1)] = int(m.group(2))
                h = re.search(r'clause=(\S+) scenario=(\S+)\s+history: (.*)', m.group(3))
                if h and int(m.group(2)) == 1:
                    hist[m.group(1)] = {'clause': h.group(1), 'scenario': h.group(2), 'history': h.group(3).strip()[:300]}
        det = set(meta.get('detected_by', [])) - set(res) | {c for c, e in res.items() if e == 1}
        nd = set(meta.get('not_detected_by', [])) - set(res) | {c for c, e in res.items() if e == 0}
        meta['detected_by'], meta['not_detected_by'] = sorted(det), sorted(nd)
        ex = meta.get('detection_examples', {})
        ex.update(hist)
        meta['detection_examples'] = ex
        meta['checks_run'] = 'tools/seedmatrix.sh: quick tier of the listed checks against a scratch worktree of /repo HEAD with the patch applied'
        json.dump(meta, open(mp, 'w'), indent=1)
    rows.append((name, meta.get('property'), set(meta.get('detected_by', [])), set(meta.get('not_detected_by', []))))
def key(n):
    a, b = n.split('-'); return (a, int(b))
rows.sort(key=lambda r: key(r[0]))
with open('/verif/seeded/MATRIX.md', 'w') as f:
    f.write('# Seeded changes x quick checks\n\nX = the check exits 1 with a VIOLATION line on the change; . = exits 0; blank = not run against it. The second column is the property the change was written against. Each change was run against the check of its own property and, when it touches ddsketch/store, against C04, C14 and C15 as well (tools/seedmatrix.sh --own).\n\n')
    f.write('| change | prop | ' + ' | '.join(checks) + ' |\n|---|---|' + '---|' * len(checks) + '\n')
    for name, prop, det, nd in rows:
        f.write(f'| {name} | {prop} | ' + ' | '.join('X' if c in det else ('.' if c in nd else ' ') for c in checks) + ' |\n')
    own = [n for n, p, det, nd in rows if p not in det]
    anyc = [n for n, p, det, nd in rows if not det]
    f.write('\nNot detected by the check of their own property: ' + (', '.join(own) if own else 'none') + '\n')
    f.write('\nNot detected by any check they were run against: ' + (', '.join(anyc) if anyc else 'none') + '\n')
print(open('/verif/seeded/MATRIX.md').read()[-1500:])
PY
rm -rf "$OUT"
