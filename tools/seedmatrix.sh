#!/bin/bash
# Runs the quick checks against every seeded change (each applied to its own
# scratch worktree of /repo HEAD; /repo itself is never touched) and writes
# seeded/MATRIX.md plus the detected_by / not_detected_by fields of each meta.json.
#   tools/seedmatrix.sh [-j N] [check ids...]      (default: all 20 checks, 3 seeds at a time)
#   tools/seedmatrix.sh [-j N] --own               (each change against the check of its own property, plus
#                                                    C04 C14 C15 when it touches ddsketch/store)
set -u
J=3
if [ "${1:-}" = "-j" ]; then J="$2"; shift 2; fi
OWN=""
if [ "${1:-}" = "--own" ]; then OWN=1; shift; fi
export OWN
CHECKS=("$@")
if [ ${#CHECKS[@]} -eq 0 ]; then CHECKS=(C01 C02 C03 C04 C05 C06 C07 C08 C09 C10 C11 C12 C13 C14 C15 C16 C17 C18 C19 C20); fi
cd /verif
OUT=/tmp/seedmatrix.$$
mkdir -p "$OUT"
run_one() {
  local d="$1"; local name; name=$(basename "$d")
  if [ -n "$OWN" ]; then
    own=$(python3 -c "import json,sys; print(json.load(open('$d/meta.json'))['property'])")
    extra=""
    if grep -q '^+++ b/ddsketch/store/' "$d/patch.diff"; then extra="C04 C14 C15"; fi
    list=$(echo "$own $extra" | tr ' ' '\n' | awk 'NF && !seen[$0]++' | tr '\n' ' ')
    VERIF_WORKERS=5 tools/seedtest.sh "$d/patch.diff" $list > "$OUT/$name.txt" 2>&1
    return
  fi
  VERIF_WORKERS=5 tools/seedtest.sh "$d/patch.diff" "${CHECKS[@]}" > "$OUT/$name.txt" 2>&1
}
export -f run_one; export OUT; export CHECKS_STR="${CHECKS[*]}"
ls -d seeded/*/ | sed 's#/$##' | xargs -P "$J" -I{} bash -c 'CHECKS=($CHECKS_STR); run_one {}'
python3 - "$OUT" "${CHECKS[@]}" <<'PY'
import sys, os, json, re, glob
out, checks = sys.argv[1], sys.argv[2:]
rows = []
for d in sorted(glob.glob('/verif/seeded/*/')):
    name = os.path.basename(d.rstrip('/'))
    res = {}
    hist = {}
    try:
        for line in open(os.path.join(out, name + '.txt')):
            m = re.match(r'(C\d+) exit=(\d+)(.*)', line)
            if m:
                res[m.group(1)] = int(m.group(2))
                h = re.search(r'clause=(\S+) scenario=(\S+)\s+history: (.*)', m.group(3))
                if h and int(m.group(2)) == 1:
                    hist[m.group(1)] = {'clause': h.group(1), 'scenario': h.group(2), 'history': h.group(3).strip()[:300]}
    except FileNotFoundError:
        pass
    mp = os.path.join(d, 'meta.json')
    meta = json.load(open(mp))
    meta['detected_by'] = sorted(c for c, e in res.items() if e == 1)
    meta['not_detected_by'] = sorted(c for c, e in res.items() if e == 0)
    meta['detection_examples'] = hist
    meta['checks_run'] = 'tools/seedmatrix.sh: quick tier of each listed check against a scratch worktree of /repo HEAD with the patch applied'
    json.dump(meta, open(mp, 'w'), indent=1)
    rows.append((name, meta.get('property'), res))
with open('/verif/seeded/MATRIX.md', 'w') as f:
    f.write('# Seeded changes x quick checks\n\nX = the check exits 1 with a VIOLATION line; . = exits 0; ? = other exit / not run. The first column after the name is the property the change was written against.\n\n')
    f.write('| change | prop | ' + ' | '.join(checks) + ' |\n|---|---|' + '---|' * len(checks) + '\n')
    for name, prop, res in rows:
        f.write(f'| {name} | {prop} | ' + ' | '.join({1: 'X', 0: '.'}.get(res.get(c), '?') for c in checks) + ' |\n')
    own = [(n, p) for n, p, r in rows if r.get(p) != 1]
    f.write('\nChanges not detected by the check of their own property: ' + (', '.join(n for n, _ in own) if own else 'none') + '\n')
print(open('/verif/seeded/MATRIX.md').read())
PY
rm -rf "$OUT"
