#!/usr/bin/env python3
"""Regenerates /verif/MANIFEST.json from the table below (kept next to the code
so the manifest, the registered checks and DESIGN.md stay in step)."""
import json, os, sys

HERE = os.path.dirname(os.path.dirname(os.path.abspath(__file__)))

ENGINE = "bfs-on-implementation"

# id -> (category, technique, level text, level note, design ref)
CHECKS = {
 "C04": ("model_checking",
  "explicit-state BFS over operation histories on the real stores vs reference map",
  "Every history of bounded depth over a layout-edge alphabet (adds, weighted adds, bins, merges from every store kind, copies, clears, reweightings, binary and protobuf round trips, reads), from every seed state, is executed on the real dense, sparse and buffered-paginated stores (alphabets include zero, fractional and large weights, self-merges, early-stopped iterations, a protobuf message held while its source changes and the streaming protobuf writer); each distinct concrete state is compared observer by observer with the mathematical index->weight map. Bounded-exhaustive: a coverage statement over all histories within the bound, not a sample.",
  "Trusted: the reference map (60 lines), the reflective state dump used only for pruning (a collision can prune, never alarm), dyadic weights. Not covered: histories deeper than the bound below each seed, indexes near +-2^31 for array-backed stores.",
  "DESIGN.md section 4 C04"),
 "C01": ("model_checking",
  "explicit-state BFS over add sequences on the real sketch x exhaustive quantile probes vs exact order statistics",
  "All sequences of bounded length of Add(v) over a value alphabet derived from each mapping (bin edges and their float predecessors, range ends, sub-minimum magnitudes, zeros, duplicates) are executed on real sketches (3 mapping kinds x alphas x 3 store kinds), also below macro seeds of 70-140 values and on sketches built by the convenience constructors; in every distinct state every quantile of Q(n) is compared with the exact order statistics at floor/ceil of q(n-1) within alpha plus a stated rounding allowance.",
  "Trusted: the order-statistics oracle, the tolerance policy of DESIGN.md section 5. Not covered: inputs longer than the bound, values off the alphabet (bin membership at every edge is C03's job).",
  "DESIGN.md section 4 C01"),
 "C02": ("model_checking",
  "explicit-state BFS over 3-sketch histories (add/weighted add/merge incl. self/decode-merge/clear/read) vs single-sketch twin, frame clause on arguments",
  "Every history of bounded depth over three real sketches of mixed store kinds sharing a mapping enumerates every partition of every small (also weighted) input and every merge order/tree, including a sketch merged with itself and, for the paginated store paired with itself, receivers whose pages were cleared or whose buffer is past its compaction trigger; after each transition each sketch must be observation-identical to one sketch fed its whole input, and the argument of each merge must be observed unchanged.",
  "Trusted: the canonical observation (all public observers). Not covered: more than three live sketches; inputs longer than the depth.",
  "DESIGN.md section 4 C02"),
 "C05": ("model_checking",
  "explicit-state BFS over operation histories on the real collapsing stores vs folding reference, span and no-panic clauses",
  "As C04 for the lowest- and highest-collapsing stores with bin limits 1..8 (quick) up to 2048 (thorough), partnered with every store kind and with collapsing stores of other limits, from seeds that include a partner wider than N merged into an empty or cleared receiver; every state equals the folding reference, spans at most N indexes, and no transition panics; sketch-level worlds (also built by the LogCollapsing* constructors) compare bins with the folded reference and keep the accuracy clause for retained bins.",
  "Trusted: the folding reference (fold keys beyond max-N+1 / min+N-1 into the edge). Not covered: histories deeper than the bound below each seed.",
  "DESIGN.md section 4 C05"),
 "C10": ("model_checking",
  "explicit-state BFS over histories of two exact-statistics sketches vs the absorbed (value, weight) multiset",
  "Every bounded history of Add / AddWithCount (incl. weight 0 and refused values) / MergeWith / Copy / Clear / Reweight / ChangeMapping with scale / encode-decode / DecodeAndMergeWith on real sketches with exact summary statistics; in every distinct state count, min, max are compared exactly, the sum against a 2000-bit reference within 16 ulps of the total of |value*weight|, emptiness, and every quantile against the plain answer clamped to [min,max]; one world is built by the exact-variant constructors.",
  "Trusted: the multiset reference. Not covered: histories deeper than the bound; non-dyadic weights.",
  "DESIGN.md section 4 C10"),
 "C11": ("model_checking",
  "explicit-state BFS over weighted add sequences (+ reweight) x cumulative-boundary quantiles vs absorbed values",
  "All sequences of bounded length over 42 weighted additions (weights 2^-10..2^20), optionally followed by a down-scaling Reweight, on real sketches; every distinct state is queried at every cumulative boundary and its float neighbours; the answer must be within alpha of an absorbed value whose cumulative interval is within one unit of weight of the rank, inside [min,max], and from a non-empty side.",
  "Trusted: the cumulative-interval oracle and tolerance policy. Not covered: longer inputs, non-dyadic weights.",
  "DESIGN.md section 4 C11"),
 "C12": ("model_checking",
  "state invariant evaluated on every state of an explicit-state BFS over sketch histories (5 store kinds, both variants)",
  "The coherence clauses (count, emptiness, extremes, monotone quantiles inside [min,max], batch = singles, approximate sum, iteration and early stop at every position) are evaluated on every distinct state reached by bounded histories of two-slot sketch worlds over all five store kinds and both sketch variants, and of sketches built by each convenience constructor.",
  "Trusted: the multiset reference and the folding reference for clamped extremes. Not covered: histories deeper than the bound.",
  "DESIGN.md section 4 C12"),
 "C13": ("model_checking",
  "refused/accepted call menus executed in every state of an explicit-state BFS; constructor menus enumerated",
  "In every distinct state of bounded histories (both variants; dense, sparse, paginated, collapsing stores) each refused call must return its documented error and leave the full observation unchanged, each accepted call must return nil; refused calls are also transitions, so hidden damage shows in their futures (bins compared with the reference); constructor menus (accuracies, bases, also arriving as protobuf messages and binary mapping blocks) are enumerated exhaustively.",
  "Trusted: the canonical observation. NaN weights/factors/constructor parameters are outside the contract and not probed.",
  "DESIGN.md section 4 C13"),
 "C14": ("model_checking",
  "frame clause over every transition of an explicit-state BFS (stores and sketches) + differential twin world running the same history without its read-only operations; copy = original",
  "Bounded histories interleaving mutations with every read-only operation and with copies, on all five store kinds and both sketch variants; across every transition the observation of each slot the operation may not write must be identical before and after, a fresh copy must be observed identical to its original, and a twin world that executes the same history without its read-only operations (queries, complete and early-stopped iterations, encodings, protobuf conversions, copies) must be observed identical in every state, so a read leaves no trace in any explored future. Copies of objects whose totals have rounded (all sequences of <= 3 (4) additions with non-dyadic weights, each store kind, both sketch variants) are compared with their originals to the last bit.",
  "Trusted: the canonical observation and the per-operation write sets. Not covered: histories deeper than the bound. One recorded finding (KNOWN_FINDINGS.txt, DESIGN.md section 6): on the paginated store Encode changes the last bits of GetCount when bin weights are not dyadic; printed as KNOWN-FINDING by both tiers.",
  "DESIGN.md section 4 C14"),
 "C15": ("model_checking",
  "differential BFS: main world vs twin world in which Clear = replace by new object; key includes both dumps",
  "Every bounded history (stores of all five kinds; sketches of both variants; reads before Clear; a refused decode followed by Clear) is run in a main world and in a twin world where Clear is replaced by constructing a new object; corresponding slots must be observed identical after every transition; stale memory behind len is part of the state key so states differing only in garbage are both extended.",
  "Model-free. Not covered: histories deeper than the bound below each seed.",
  "DESIGN.md section 4 C15"),
 "C16": ("model_checking",
  "differential transition oracle on every Reweight transition of an explicit-state BFS: content after = content before x w; exhaustive addition sequences compared with a twin fed scaled weights",
  "Every state of depth below the bound of store worlds (all kinds; with reads, copies and reweights of both slots) and sketch worlds (both variants) receives Reweight(w), w in {2^-10, 1/2, 1, 2, 3}; the content after must be exactly the content before with every weight scaled (stores: all observers; sketches: bins, zero weight, count, exact sum scaled, exact extremes unchanged). In addition every sequence of <= 3 (4) additions with non-dyadic weights, on each store kind and through a sketch, followed by Reweight(w) is compared to the last bit with a twin object that received the weights multiplied by the dyadic w.",
  "Model-free (the expectation is the real content before the call, scaled; or a twin object running the same code). Not covered: non-dyadic factors; non-dyadic weights beyond addition-only sequences.",
  "DESIGN.md section 4 C16"),
 "C03": ("exploration",
  "exhaustive enumeration of the bin-edge lattice of every mapping (every bin +-ulps, exact Index steps by bisection, binades, range ends, T-bit lattice)",
  "For 3 mapping kinds x 10 (13 thorough) accuracies x 13 index offsets, (plus mappings given by exactly representable bases: 2, 4, 16, 1.5, 1.0625 with whole and fractional offsets) every bin of the indexable range is probed at its lower bound +-2 ulps and at the exact float where Index steps (found by bisection on the bit pattern), plus every binade boundary, both range ends and a T-bit significand lattice; accuracy, monotonicity, containment, int32 range and reported accuracy are checked at each of ~6e8 points (quick). Bounded-exhaustive over the stated lattice, not a proof over all floats.",
  "Trusted: the tolerance policy (DESIGN.md section 5). Not covered: floats strictly between lattice points (an interior violation would need Index to be off by a whole bin, which the T-bit lattice samples densely in every binade).",
  "DESIGN.md section 4 C03"),
 "C06": ("model_checking",
  "explicit-state BFS builds the corpus of sketch states; each is encoded/decoded into every store kind and composed with merging, vs reference content",
  "Every distinct state of bounded two-slot sketch histories (five producer store kinds, both variants) is encoded (mapping embedded/omitted, nil buffer / prefixed buffer), decoded into five target store kinds and compared bin for bin with the reference (folded for bounded targets); decode-into-non-empty is compared with MergeWith, decode into a cleared receiver that held the same content with the plain decode, concatenations with merges; Encode must be append-only and pure; the decoded sketch of the same store kind must answer every query identically.",
  "Trusted: the reference content and folding. Not covered: weights that do not survive the +1/-1 transform (excluded by the property).",
  "DESIGN.md section 4 C06"),
 "C07": ("model_checking",
  "corpus encodings parsed by an independent decoder written from the documentation; grammar-generated streams decoded by the implementation",
  "Direction 1: every encoding of the BFS corpus is parsed by refwire (written only from the comments of flag.go/encoding.go) and must yield the same content; the plain decoder must accept exact-variant encodings. Direction 2: every well-formed stream of the documented grammar within stated bounds (~1e5 streams quick, incl. indexes at both ends of the int32 range for the sparse and the bounded stores; the dense and paginated stores would have to allocate the span) is decoded by the implementation into five store kinds and compared with the documented meaning.",
  "Trusted: refwire as a faithful reading of the documentation. Not covered: streams beyond the grammar bounds (more than 2 store blocks, more than 3 bins per block).",
  "DESIGN.md section 4 C07"),
 "C08": ("fault_enumeration",
  "every truncation point and every undefined flag at every block boundary of every corpus encoding; all mapping mismatches",
  "For every encoding of the BFS corpus: every cut point is decoded by three consumer store kinds (and into a non-empty receiver) and must be an error strictly inside a block and exactly the complete blocks on a boundary (boundaries from refwire), exact-variant encodings also through the plain decoder; all 240 undefined flag bytes are substituted at every block boundary once per distinct flag sequence; every ordered pair of distinct mappings as (receiver, stream) must be refused; no panic.",
  "Trusted: refwire's block boundaries. Not covered: multi-byte corruptions other than truncation and single-flag substitution.",
  "DESIGN.md section 4 C08"),
 "C09": ("model_checking",
  "BFS corpus through ToProto/Marshal/Unmarshal/FromProto for every store kind pair; streaming writer vs message; hand-built mixed messages enumerated",
  "Every distinct state of bounded plain-sketch histories (five producer store kinds) is converted to a message, marshalled, unmarshalled and rebuilt with five store kinds (bins bit for bit, equal mapping); the streaming writer's bytes must unmarshal to a message proto.Equal to ToProto(); hand-built messages mixing sparse and contiguous bins (incl. zero counts at the edges of a run) are enumerated and judged on bins, extremes, emptiness and rank clamps.",
  "Trusted: google.golang.org/protobuf for Marshal/Unmarshal/Equal. Not covered: messages with more than two addends per index.",
  "DESIGN.md section 4 C09"),
 "C17": ("exploration",
  "exhaustive enumeration of conversions (mapping pairs x scales incl. bin-aligned x stores x variants x single-bin and small sources)",
  "All ordered pairs of mappings of the grid (plus integer offset shifts of the same base, which align bins exactly) x 11 scales x store kind pairs x both variants x every single-bin source of a window, small multi-bin sources, single values at 1e-100..1e100 and weights of 1e300 / 1e-300, sparse sources under every explored map order; each conversion is judged on source purity, carried mapping, zero weight, weight conservation, absence of negative bins, overlap, the composed accuracy bound on quantiles, identity = copy, and rescaled exact statistics.",
  "Trusted: the composed bound (1-a2)/(1+a1) <= y/(s x) <= (1+a2)/(1-a1). Not covered: magnitudes beyond 1e-100..1e100, multi-bin sources outside [2e-3, 5e2], scales outside [1e-3, 1e3].",
  "DESIGN.md section 4 C17"),
 "C18": ("exploration",
  "exhaustive enumeration of byte strings (all strings <= 3 bytes, boundary alphabets to length 8-12) and of structured values through the codecs",
  "Every byte string of length <= 3 (4 thorough) and boundary-alphabet strings up to length 8 (10) go through the four variable-length decoders and are compared with independent readers written from the documentation; every unsigned value below 2^24 and every structured 64-bit value goes through encoders, size functions, decoders with trailing paddings and every strict prefix, and is encoded behind a prefix into stale spare capacity (append-only).",
  "Trusted: the independent readers. Not covered: byte strings of length 5..9 outside the boundary alphabets.",
  "DESIGN.md section 4 C18"),
 "C19": ("exploration",
  "351 mappings through three serialised forms, each followed by mappings sharing some of its parameters; all 351^2 ordered pairs for the equality laws",
  "Each of 351 mappings (3 kinds x 13 accuracies x 9 offsets) goes through the binary form, the protobuf message and the streaming protobuf writer; the mapping read back must be Equals both ways and behave identically on a probe lattice; 14 mappings sharing every proper subset of (kind, base, offset) with it are read back right after it and must come back as themselves; all ordered pairs are checked for reflexivity, symmetry, inequality across kinds and clearly different accuracies, and equal-implies-same-indexes.",
  "Trusted: google.golang.org/protobuf. Behavioural identity is probed on a finite lattice.",
  "DESIGN.md section 4 C19"),
 "C20": ("model_checking",
  "explicit-state BFS over histories of two datasets (add, lazy-sorting queries, merge) vs sorted slice; frame clause",
  "Every bounded history of Add / queries (which sort lazily) / Merge on two real datasets; every distinct concrete state (incl. the private sorted flag and current value order) is compared with a sorted slice on count, extremes, sum and lower/upper quantiles at every q of Q(n) and out-of-range q, each observer also as the first query after the history on a rebuilt instance; queries must not change any answer.",
  "Trusted: the sorted-slice reference. Not covered: histories deeper than the bound; NaN inputs.",
  "DESIGN.md section 4 C20"),
}

NOT_YET = "check not built yet in this round (work in progress; will be claimed once its machinery exists)"

def main():
    props = [json.loads(l) for l in open(os.path.join(HERE, "properties.jsonl")) if l.strip()]
    ids = [p["id"] for p in props]
    checks = []
    for pid in ids:
        if pid not in CHECKS:
            continue
        cat, tech, text, note, ref = CHECKS[pid]
        checks.append({
            "property_id": pid,
            "quick_cmd": f"bin/check.sh {pid} quick",
            "thorough_cmd": f"bin/check.sh {pid} thorough",
            "evidence_file": f"/verif/evidence/{pid}.json",
            "replay_cmd_template": "bin/check.sh --replay {path}",
            "engine": ENGINE,
            "level_claimed": {"category": cat, "text": text, "design_ref": ref},
            "level_note": note,
            "technique": tech,
        })
    na = [{"property_id": pid, "reason": NOT_YET} for pid in ids if pid not in CHECKS]
    man = {
        "version": 1,
        "setup_cmd": "bin/check.sh --build",
        "hooks": {
            "guard": "verif",
            "enable": "no source hooks are committed to /repo: private state is read by reflection and map iteration order is owned through a go build -overlay generated from the working tree at check time (DESIGN.md 2.5)",
            "baseline_off_cmd": "cd /repo && GOFLAGS=-mod=mod GOPROXY=off go test -vet=off -count=1 -timeout 25m ./...",
            "source_commits": [],
            "add_only": True,
        },
        "engines": [{
            "name": ENGINE,
            "path": "/verif/mc",
            "serves_properties": [c["property_id"] for c in checks],
            "kind_free_text": "hand-written explicit-state explorer: breadth-first search over operation histories executed on the real Go code (successor = replay on fresh objects + one operation), visited set keyed by a reflective dump of private state plus reference-model state, sharded over worker processes",
        }],
        "checks": checks,
        "not_applicable": na,
        "notes": "All checks rebuild the harness against /repo's working tree (module replace) on every invocation. Exit 0 = held on everything explored; exit 1 = VIOLATION line. KNOWN_FINDINGS.txt lists eight repaired defects (fixed:) and one recorded one (known: C14 - the count of a sketch on the paginated store changes in its last bits when Encode compacts the buffer; bins must have non-dyadic weights; both tiers print KNOWN-FINDING lines for it and exit 0).",
    }
    json.dump(man, open(os.path.join(HERE, "MANIFEST.json"), "w"), indent=1)
    print("wrote MANIFEST.json with", len(checks), "checks;", len(na), "not applicable")

if __name__ == "__main__":
    main()
