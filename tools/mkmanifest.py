#!/usr/bin/env python3
"""Regenerates /verif/MANIFEST.json from the table below (kept next to the code
so the manifest, the registered checks and DESIGN.md stay in step)."""
import json, os, sys

HERE = os.path.dirname(os.path.dirname(os.path.abspath(__file__)))

ENGINE = "bfs-on-implementation"

# id -> (category, technique, level text, level note, design ref)
CHECKS = {
 "C04": ("model_checking",
  "explicit-state BFS over operation histories on the real stores vs reference map",
  "Every history of bounded depth over a layout-edge alphabet (adds, weighted adds, bins, merges from every store kind, copies, clears, reweightings, binary and protobuf round trips, reads), from every seed state, is executed on the real dense, sparse and buffered-paginated stores; each distinct concrete state is compared observer by observer with the mathematical index->weight map. Bounded-exhaustive: a coverage statement over all histories within the bound, not a sample.",
  "Trusted: the reference map (60 lines), the reflective state dump used only for pruning (a collision can prune, never alarm), dyadic weights. Not covered: histories deeper than the bound below each seed, indexes near +-2^31 for array-backed stores.",
  "DESIGN.md section 4 C04"),
 "C01": ("model_checking",
  "explicit-state BFS over add sequences on the real sketch x exhaustive quantile probes vs exact order statistics",
  "All sequences of bounded length of Add(v) over a value alphabet derived from each mapping (bin edges and their float predecessors, range ends, sub-minimum magnitudes, zeros, duplicates) are executed on real sketches (3 mapping kinds x alphas x 3 store kinds); in every distinct state every quantile of Q(n) is compared with the exact order statistics at floor/ceil of q(n-1) within alpha plus a stated rounding allowance.",
  "Trusted: the order-statistics oracle, the tolerance policy of DESIGN.md section 5. Not covered: inputs longer than the bound, values off the alphabet (bin membership at every edge is C03's job).",
  "DESIGN.md section 4 C01"),
 "C02": ("model_checking",
  "explicit-state BFS over 3-sketch histories (add/merge/decode-merge/clear) vs single-sketch twin, frame clause on arguments",
  "Every history of bounded depth over three real sketches of mixed store kinds sharing a mapping enumerates every partition of every small input and every merge order/tree; after each transition each sketch must be observation-identical to one sketch fed its whole input, and the argument of each merge must be observed unchanged.",
  "Trusted: the canonical observation (all public observers). Not covered: more than three live sketches; inputs longer than the depth.",
  "DESIGN.md section 4 C02"),
 "C05": ("model_checking",
  "explicit-state BFS over operation histories on the real collapsing stores vs folding reference, span and no-panic clauses",
  "As C04 for the lowest- and highest-collapsing stores with bin limits 1..8 (quick) up to 2048 (thorough), partnered with every store kind and with collapsing stores of other limits, from seeds that include a partner wider than N merged into an empty or cleared receiver; every state equals the folding reference, spans at most N indexes, and no transition panics.",
  "Trusted: the folding reference (fold keys beyond max-N+1 / min+N-1 into the edge). Not covered: histories deeper than the bound below each seed.",
  "DESIGN.md section 4 C05"),
 "C10": ("model_checking",
  "explicit-state BFS over histories of two exact-statistics sketches vs the absorbed (value, weight) multiset",
  "Every bounded history of Add / AddWithCount (incl. weight 0 and refused values) / MergeWith / Copy / Clear / Reweight / ChangeMapping with scale / encode-decode / DecodeAndMergeWith on real sketches with exact summary statistics; in every distinct state count, min, max are compared exactly, the sum against a 2000-bit reference within 16 ulps of the total of |value*weight|, emptiness, and every quantile against the plain answer clamped to [min,max].",
  "Trusted: the multiset reference. Not covered: histories deeper than the bound; non-dyadic weights.",
  "DESIGN.md section 4 C10"),
 "C11": ("model_checking",
  "explicit-state BFS over weighted add sequences (+ reweight) x cumulative-boundary quantiles vs absorbed values",
  "All sequences of bounded length over 42 weighted additions (weights 2^-10..2^20), optionally followed by a down-scaling Reweight, on real sketches; every distinct state is queried at every cumulative boundary and its float neighbours; the answer must be within alpha of an absorbed value whose cumulative interval is within one unit of weight of the rank, inside [min,max], and from a non-empty side.",
  "Trusted: the cumulative-interval oracle and tolerance policy. Not covered: longer inputs, non-dyadic weights.",
  "DESIGN.md section 4 C11"),
 "C12": ("model_checking",
  "state invariant evaluated on every state of an explicit-state BFS over sketch histories (5 store kinds, both variants)",
  "The coherence clauses (count, emptiness, extremes, monotone quantiles inside [min,max], batch = singles, approximate sum, iteration and early stop at every position) are evaluated on every distinct state reached by bounded histories of two-slot sketch worlds over all five store kinds and both sketch variants.",
  "Trusted: the multiset reference and the folding reference for clamped extremes. Not covered: histories deeper than the bound.",
  "DESIGN.md section 4 C12"),
 "C13": ("model_checking",
  "refused/accepted call menus executed in every state of an explicit-state BFS; constructor menus enumerated",
  "In every distinct state of bounded histories (both variants; dense, sparse, paginated, collapsing stores) each refused call must return its documented error and leave the full observation unchanged, each accepted call must return nil; refused calls are also transitions, so hidden damage shows in their futures (bins compared with the reference); constructor menus are enumerated exhaustively.",
  "Trusted: the canonical observation. NaN weights/factors/constructor parameters are outside the contract and not probed.",
  "DESIGN.md section 4 C13"),
 "C14": ("model_checking",
  "frame clause over every transition of an explicit-state BFS (stores and sketches): untouched slots observed unchanged; copy = original",
  "Bounded histories interleaving mutations with every read-only operation and with copies, on all five store kinds and both sketch variants; across every transition the observation of each slot the operation may not write must be identical before and after, and a fresh copy must be observed identical to its original.",
  "Trusted: the canonical observation and the per-operation write sets. Not covered: histories deeper than the bound.",
  "DESIGN.md section 4 C14"),
 "C15": ("model_checking",
  "differential BFS: main world vs twin world in which Clear = replace by new object; key includes both dumps",
  "Every bounded history (stores of all five kinds; sketches of both variants) is run in a main world and in a twin world where Clear is replaced by constructing a new object; corresponding slots must be observed identical after every transition; stale memory behind len is part of the state key so states differing only in garbage are both extended.",
  "Model-free. Not covered: histories deeper than the bound below each seed.",
  "DESIGN.md section 4 C15"),
 "C16": ("model_checking",
  "differential transition oracle on every Reweight transition of an explicit-state BFS: content after = content before x w",
  "Every state of depth below the bound of store worlds (all kinds) and sketch worlds (both variants) receives Reweight(w), w in {2^-10, 1/2, 1, 2, 3}; the content after must be exactly the content before with every weight scaled (stores: all observers; sketches: bins, zero weight, count, exact sum scaled, exact extremes unchanged).",
  "Model-free (the expectation is the real content before the call, scaled). Not covered: non-dyadic weights or factors.",
  "DESIGN.md section 4 C16"),
}

NOT_YET = "check not built yet in this round (work in progress; will be claimed once its machinery exists)"

def main():
    props = [json.loads(l) for l in open(os.path.join(HERE, "properties.jsonl")) if l.strip()]
    ids = [p["id"] for p in props]
    checks = []
    for pid in ids:
        if pid not in CHECKS:
            continue
        cat, tech, text, note, ref = CHECKS[pid]
        checks.append({
            "property_id": pid,
            "quick_cmd": f"bin/check.sh {pid} quick",
            "thorough_cmd": f"bin/check.sh {pid} thorough",
            "evidence_file": f"/verif/evidence/{pid}.json",
            "replay_cmd_template": "bin/check.sh --replay {path}",
            "engine": ENGINE,
            "level_claimed": {"category": cat, "text": text, "design_ref": ref},
            "level_note": note,
            "technique": tech,
        })
    na = [{"property_id": pid, "reason": NOT_YET} for pid in ids if pid not in CHECKS]
    man = {
        "version": 1,
        "setup_cmd": "bin/check.sh --build",
        "hooks": {
            "guard": "verif",
            "enable": "no source hooks are committed to /repo: private state is read by reflection and map iteration order is owned through a go build -overlay generated from the working tree at check time (DESIGN.md 2.5)",
            "baseline_off_cmd": "cd /repo && GOFLAGS=-mod=mod GOPROXY=off go test -vet=off -count=1 -timeout 25m ./...",
            "source_commits": [],
            "add_only": True,
        },
        "engines": [{
            "name": ENGINE,
            "path": "/verif/mc",
            "serves_properties": [c["property_id"] for c in checks],
            "kind_free_text": "hand-written explicit-state explorer: breadth-first search over operation histories executed on the real Go code (successor = replay on fresh objects + one operation), visited set keyed by a reflective dump of private state plus reference-model state, sharded over worker processes",
        }],
        "checks": checks,
        "not_applicable": na,
        "notes": "All checks rebuild the harness against /repo's working tree (module replace) on every invocation. Exit 0 = held on everything explored; exit 1 = VIOLATION line. KNOWN_FINDINGS.txt lists repaired defects (fixed:) and, if any, recorded ones (known:).",
    }
    json.dump(man, open(os.path.join(HERE, "MANIFEST.json"), "w"), indent=1)
    print("wrote MANIFEST.json with", len(checks), "checks;", len(na), "not applicable")

if __name__ == "__main__":
    main()
