#!/usr/bin/env python3
"""Regenerates /verif/MANIFEST.json from the table below (kept next to the code
so the manifest, the registered checks and DESIGN.md stay in step)."""
import json, os, sys

HERE = os.path.dirname(os.path.dirname(os.path.abspath(__file__)))

ENGINE = "bfs-on-implementation"

# id -> (category, technique, level text, level note, design ref)
CHECKS = {
 "C04": ("model_checking",
  "explicit-state BFS over operation histories on the real stores vs reference map",
  "Every history of bounded depth over a layout-edge alphabet (adds, weighted adds, bins, merges from every store kind, copies, clears, reweightings, binary and protobuf round trips, reads), from every seed state, is executed on the real dense, sparse and buffered-paginated stores; each distinct concrete state is compared observer by observer with the mathematical index->weight map. Bounded-exhaustive: a coverage statement over all histories within the bound, not a sample.",
  "Trusted: the reference map (60 lines), the reflective state dump used only for pruning (a collision can prune, never alarm), dyadic weights. Not covered: histories deeper than the bound below each seed, indexes near +-2^31 for array-backed stores.",
  "DESIGN.md section 4 C04"),
}

NOT_YET = "check not built yet in this round (work in progress; will be claimed once its machinery exists)"

def main():
    props = [json.loads(l) for l in open(os.path.join(HERE, "properties.jsonl")) if l.strip()]
    ids = [p["id"] for p in props]
    checks = []
    for pid in ids:
        if pid not in CHECKS:
            continue
        cat, tech, text, note, ref = CHECKS[pid]
        checks.append({
            "property_id": pid,
            "quick_cmd": f"bin/check.sh {pid} quick",
            "thorough_cmd": f"bin/check.sh {pid} thorough",
            "evidence_file": f"/verif/evidence/{pid}.json",
            "replay_cmd_template": "bin/check.sh --replay {path}",
            "engine": ENGINE,
            "level_claimed": {"category": cat, "text": text, "design_ref": ref},
            "level_note": note,
            "technique": tech,
        })
    na = [{"property_id": pid, "reason": NOT_YET} for pid in ids if pid not in CHECKS]
    man = {
        "version": 1,
        "setup_cmd": "bin/check.sh --build",
        "hooks": {
            "guard": "verif",
            "enable": "no source hooks are committed to /repo: private state is read by reflection and map iteration order is owned through a go build -overlay generated from the working tree at check time (DESIGN.md 2.5)",
            "baseline_off_cmd": "cd /repo && GOFLAGS=-mod=mod GOPROXY=off go test -vet=off -count=1 -timeout 25m ./...",
            "source_commits": [],
            "add_only": True,
        },
        "engines": [{
            "name": ENGINE,
            "path": "/verif/mc",
            "serves_properties": [c["property_id"] for c in checks],
            "kind_free_text": "hand-written explicit-state explorer: breadth-first search over operation histories executed on the real Go code (successor = replay on fresh objects + one operation), visited set keyed by a reflective dump of private state plus reference-model state, sharded over worker processes",
        }],
        "checks": checks,
        "not_applicable": na,
        "notes": "All checks rebuild the harness against /repo's working tree (module replace) on every invocation. Exit 0 = held on everything explored; exit 1 = VIOLATION line. KNOWN_FINDINGS.txt lists repaired defects (fixed:) and, if any, recorded ones (known:).",
    }
    json.dump(man, open(os.path.join(HERE, "MANIFEST.json"), "w"), indent=1)
    print("wrote MANIFEST.json with", len(checks), "checks;", len(na), "not applicable")

if __name__ == "__main__":
    main()
