#!/usr/bin/env python3
"""Registers a confirmed seeded change under /verif/seeded/<name>/.
usage: seedkeep.py <agent out dir> <name> <demo package dir> <validation result file> [note]"""
import json, os, re, shutil, sys
src, name, pkg, val = sys.argv[1:5]
note = sys.argv[5] if len(sys.argv) > 5 else ""
res = open(val).read()
m = re.search(r"RESULT suite_exit=(\d+) demo_with_patch_exit=(\d+) demo_without_patch_exit=(\d+)", res)
if not m or m.group(1) != "0" or m.group(2) == "0" or m.group(3) != "0":
    sys.exit(f"{name}: not confirmed: {res!r}")
dst = os.path.join("/verif/seeded", name)
os.makedirs(dst, exist_ok=True)
shutil.copy(os.path.join(src, "patch.diff"), dst)
shutil.copy(os.path.join(src, "demo_test.go"), dst)
am = json.load(open(os.path.join(src, "meta.json")))
meta = {
    "property": am.get("property"),
    "summary": am.get("summary"),
    "needs_to_manifest": am.get("needs"),
    "files": am.get("files"),
    "origin": "independent sub-agent given only the property text and a scratch worktree",
    "demo_package_dir": pkg,
    "confirmed_by_me": {
        "how": "tools/seedvalidate.sh in a scratch worktree of /repo HEAD: go build, go vet, full suite `go test -vet=off -count=1 ./...` with the patch; the demo test with and without the patch",
        "suite_passes_with_patch": True,
        "demo_fails_with_patch": True,
        "demo_passes_without_patch": True,
    },
    "note": note,
}
old = os.path.join(dst, "meta.json")
if os.path.exists(old):
    prev = json.load(open(old))
    for k in ("detected_by", "not_detected_by", "history"):
        if k in prev:
            meta[k] = prev[k]
json.dump(meta, open(old, "w"), indent=1)
print("kept", name)
