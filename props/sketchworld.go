package props

import (
	"fmt"
	"hash/fnv"
	"sort"
	"strconv"
	"strings"

	"github.com/DataDog/sketches-go/ddsketch"
	"github.com/DataDog/sketches-go/ddsketch/mapping"
	"github.com/DataDog/sketches-go/ddsketch/stat"
	"github.com/DataDog/sketches-go/ddsketch/store"

	"verif/mc"
	"verif/model"
)

// MapSpec names an index mapping: kind G (logarithmic), I (linearly
// interpolated), C (cubically interpolated); built from an accuracy, or from a
// base and an offset when Gamma != 0.
type MapSpec struct {
	Kind   byte
	Alpha  float64
	Gamma  float64
	Offset float64
}

func (s MapSpec) String() string {
	k := map[byte]string{'G': "log", 'I': "lin", 'C': "cub"}[s.Kind]
	if s.Gamma != 0 {
		return fmt.Sprintf("%s(gamma=%s,offset=%s)", k, fstr(s.Gamma), fstr(s.Offset))
	}
	return fmt.Sprintf("%s(%s)", k, fstr(s.Alpha))
}

func (s MapSpec) New() mapping.IndexMapping {
	var m mapping.IndexMapping
	var err error
	if s.Gamma != 0 {
		switch s.Kind {
		case 'G':
			m, err = mapping.NewLogarithmicMappingWithGamma(s.Gamma, s.Offset)
		case 'I':
			m, err = mapping.NewLinearlyInterpolatedMappingWithGamma(s.Gamma, s.Offset)
		default:
			m, err = mapping.NewCubicallyInterpolatedMappingWithGamma(s.Gamma, s.Offset)
		}
	} else {
		switch s.Kind {
		case 'G':
			m, err = mapping.NewLogarithmicMapping(s.Alpha)
		case 'I':
			m, err = mapping.NewLinearlyInterpolatedMapping(s.Alpha)
		default:
			m, err = mapping.NewCubicallyInterpolatedMapping(s.Alpha)
		}
	}
	if err != nil {
		panic(fmt.Sprintf("mapping %s refused: %v", s, err))
	}
	return m
}

// Sketch is the query surface shared by both sketch variants.
type Sketch interface {
	RelativeAccuracy() float64
	IsEmpty() bool
	GetCount() float64
	GetZeroCount() float64
	GetSum() float64
	GetPositiveValueStore() store.Store
	GetNegativeValueStore() store.Store
	GetMinValue() (float64, error)
	GetMaxValue() (float64, error)
	GetValueAtQuantile(quantile float64) (float64, error)
	GetValuesAtQuantiles(quantiles []float64) ([]float64, error)
	ForEach(f func(value, count float64) (stop bool))
	Add(value float64) error
	AddWithCount(value, count float64) error
	Reweight(factor float64) error
	Clear()
	Encode(b *[]byte, omitIndexMapping bool)
	DecodeAndMergeWith(b []byte) error
}

// SkSlot holds one real sketch: plain (P only) or with exact statistics (E).
type SkSlot struct {
	Store Kind
	Exact bool
	P     *ddsketch.DDSketch
	E     *ddsketch.DDSketchWithExactSummaryStatistics
}

func NewSkSlot(m mapping.IndexMapping, k Kind, exact bool) *SkSlot {
	s := &SkSlot{Store: k, Exact: exact}
	if exact {
		s.E = ddsketch.NewDDSketchWithExactSummaryStatistics(m, k.Provider())
	} else {
		s.P = ddsketch.NewDDSketch(m, k.New(), k.New())
	}
	return s
}

func (s *SkSlot) Q() Sketch {
	if s.Exact {
		return s.E
	}
	return s.P
}

func (s *SkSlot) Mapping() mapping.IndexMapping {
	if s.Exact {
		return s.E.DDSketch.IndexMapping
	}
	return s.P.IndexMapping
}

func (s *SkSlot) MergeWith(o *SkSlot) error {
	if s.Exact {
		return s.E.MergeWith(o.E)
	}
	return s.P.MergeWith(o.P)
}

func (s *SkSlot) CopyOf() *SkSlot {
	c := &SkSlot{Store: s.Store, Exact: s.Exact}
	if s.Exact {
		c.E = s.E.Copy()
	} else {
		c.P = s.P.Copy()
	}
	return c
}

func (s *SkSlot) ChangeMapping(m mapping.IndexMapping, k Kind, scale float64) *SkSlot {
	c := &SkSlot{Store: k, Exact: s.Exact}
	if s.Exact {
		c.E = s.E.ChangeMapping(m, k.Provider(), scale)
	} else {
		c.P = s.P.ChangeMapping(m, k.New(), k.New(), scale)
	}
	return c
}

// Decode builds a new slot of kind k from an encoding (mapping nil = embedded).
func DecodeSlot(b []byte, k Kind, exact bool, m mapping.IndexMapping) (*SkSlot, error) {
	c := &SkSlot{Store: k, Exact: exact}
	var err error
	if exact {
		c.E, err = ddsketch.DecodeDDSketchWithExactSummaryStatistics(b, k.Provider(), m)
	} else {
		c.P, err = ddsketch.DecodeDDSketch(b, k.Provider(), m)
	}
	return c, err
}

// Entry is one absorbed (value, weight).
type Entry struct{ V, W float64 }

// SkModel is the reference state of one sketch slot.
type SkModel struct {
	Spec     MapSpec
	Map      mapping.IndexMapping
	Pos, Neg *model.MapStore
	Zero     float64
	Ent      []Entry
	// Approx: the bins are no longer predicted by the reference (the content
	// went through ChangeMapping, which C17 judges); values and weights still are.
	Approx bool
	// Off: a unit change pushed an absorbed value to the edge of (or outside)
	// the target mapping's indexable range, which no property claims (C17:
	// "values well inside both mappings' ranges after scaling"); the slot is no
	// longer judged.
	Off bool
}

func NewSkModel(k Kind, spec MapSpec, mp mapping.IndexMapping) *SkModel {
	return &SkModel{Spec: spec, Map: mp, Pos: k.Model(), Neg: k.Model()}
}

func (m *SkModel) Add(v, w float64) {
	if w == 0 {
		return
	}
	mp := m.Map
	switch {
	case v > mp.MinIndexableValue():
		m.Pos.Add(mp.Index(v), w)
	case v < -mp.MinIndexableValue():
		m.Neg.Add(mp.Index(-v), w)
	default:
		m.Zero += w
	}
	m.Ent = append(m.Ent, Entry{v, w})
}

func (m *SkModel) MergeFrom(o *SkModel) {
	src := *o
	ent := append([]Entry{}, o.Ent...)
	m.Pos.MergeFrom(src.Pos)
	m.Neg.MergeFrom(src.Neg)
	m.Zero += src.Zero
	m.Ent = append(m.Ent, ent...)
	if src.Approx {
		m.Approx = true
	}
	if src.Off {
		m.Off = true
	}
}

func (m *SkModel) CopyFor(k Kind) *SkModel {
	c := NewSkModel(k, m.Spec, m.Map)
	c.Pos.MergeFrom(m.Pos)
	c.Neg.MergeFrom(m.Neg)
	c.Zero = m.Zero
	c.Ent = append([]Entry{}, m.Ent...)
	c.Approx = m.Approx
	c.Off = m.Off
	return c
}

func (m *SkModel) Clear() {
	m.Pos.Clear()
	m.Neg.Clear()
	m.Zero = 0
	m.Ent = nil
	m.Approx = false
	m.Off = false
}

func (m *SkModel) Scale(f float64) {
	m.Pos.Scale(f)
	m.Neg.Scale(f)
	m.Zero *= f
	for i := range m.Ent {
		m.Ent[i].W *= f
	}
}

func (m *SkModel) Total() float64 {
	t := m.Zero
	for _, e := range m.Pos.Keys() {
		t += m.Pos.M[e]
	}
	for _, e := range m.Neg.Keys() {
		t += m.Neg.M[e]
	}
	return t
}

func (m *SkModel) dump(d *mc.Dumper) {
	d.Str(m.Spec.String())
	for _, s := range []*model.MapStore{m.Pos, m.Neg} {
		for _, k := range s.Keys() {
			d.Int(k)
			d.F64(s.M[k])
		}
		d.Tag('/')
	}
	d.F64(m.Zero)
	if m.Approx {
		d.Tag('~')
	}
	if m.Off {
		d.Tag('!')
	}
	if m.Pos.Folded || m.Neg.Folded {
		d.Tag('f')
	}
	// the multiset of absorbed entries (order-free)
	es := append([]Entry{}, m.Ent...)
	sort.Slice(es, func(i, j int) bool {
		if es[i].V != es[j].V {
			return es[i].V < es[j].V
		}
		return es[i].W < es[j].W
	})
	for _, e := range es {
		d.F64(e.V)
		d.F64(e.W)
	}
	d.Tag('|')
}

// fixed probe quantiles of the canonical observation
var obsQ = []float64{0, 0.01, 0.1, 0.25, 0.5, 0.75, 0.9, 0.99, 1}

// appendF renders a float for canonical observations; -0 and +0 are the same
// answer (they compare equal), so both are rendered as 0.
func appendF(b []byte, x float64) []byte {
	if x == 0 {
		return append(b, '0')
	}
	return strconv.AppendFloat(b, x, 'g', -1, 64)
}

type vc struct{ v, c float64 }

// StoreContent renders the bins of a store in ascending index order.
func StoreContent(s store.Store) string {
	type kv struct {
		k int
		w float64
	}
	var each []kv
	s.ForEach(func(i int, w float64) bool { each = append(each, kv{i, w}); return false })
	sort.Slice(each, func(i, j int) bool { return each[i].k < each[j].k })
	b := make([]byte, 0, 64)
	for n, e := range each {
		if n > 0 && each[n-1].k == e.k {
			b = append(b, "DUPLICATE-KEY "...)
		}
		b = strconv.AppendInt(b, int64(e.k), 10)
		b = append(b, ':')
		b = appendF(b, e.w)
		b = append(b, ' ')
	}
	return string(b)
}

func ModelContent(m *model.MapStore) string {
	b := make([]byte, 0, 64)
	for _, k := range m.Keys() {
		b = strconv.AppendInt(b, int64(k), 10)
		b = append(b, ':')
		b = appendF(b, m.M[k])
		b = append(b, ' ')
	}
	return string(b)
}

// SketchContent: the bin-level content of a sketch.
func SketchContent(q Sketch) string {
	return "zero=" + fstr(q.GetZeroCount()) + " pos={" + StoreContent(q.GetPositiveValueStore()) + "} neg={" + StoreContent(q.GetNegativeValueStore()) + "}"
}

func (m *SkModel) Content() string {
	return "zero=" + fstr(m.Zero) + " pos={" + ModelContent(m.Pos) + "} neg={" + ModelContent(m.Neg) + "}"
}

// ObserveSketch renders every query of a sketch canonically.
func ObserveSketch(q Sketch) string {
	b := make([]byte, 0, 512)
	b = append(b, "count="...)
	b = appendF(b, q.GetCount())
	b = append(b, " empty="...)
	b = strconv.AppendBool(b, q.IsEmpty())
	if v, err := q.GetMinValue(); err != nil {
		b = append(b, " min=err"...)
	} else {
		b = append(b, " min="...)
		b = appendF(b, v)
	}
	if v, err := q.GetMaxValue(); err != nil {
		b = append(b, " max=err"...)
	} else {
		b = append(b, " max="...)
		b = appendF(b, v)
	}
	// the approximate sum of a plain sketch adds bins in iteration order, which
	// for the sparse store is the map's: only order-independent sums are observed
	if sumIsOrderFree(q) {
		b = append(b, " sum="...)
		b = appendF(b, q.GetSum())
	}
	b = append(b, " q=["...)
	for _, x := range obsQ {
		if v, err := q.GetValueAtQuantile(x); err != nil {
			b = append(b, "err "...)
		} else {
			b = appendF(b, v)
			b = append(b, ' ')
		}
	}
	b = append(b, "] batch=["...)
	if vs, err := q.GetValuesAtQuantiles(obsQ); err != nil {
		b = append(b, "err"...)
	} else {
		for _, v := range vs {
			b = appendF(b, v)
			b = append(b, ' ')
		}
	}
	b = append(b, "] foreach={"...)
	var each []vc
	q.ForEach(func(v, c float64) bool { each = append(each, vc{v, c}); return false })
	sort.Slice(each, func(i, j int) bool { return each[i].v < each[j].v })
	for _, e := range each {
		b = appendF(b, e.v)
		b = append(b, ':')
		b = appendF(b, e.c)
		b = append(b, ' ')
	}
	b = append(b, "} "...)
	b = append(b, SketchContent(q)...)
	return string(b)
}

func sumIsOrderFree(q Sketch) bool {
	if _, plain := q.(*ddsketch.DDSketch); !plain {
		return true
	}
	if _, sp := q.GetPositiveValueStore().(*store.SparseStore); sp {
		return false
	}
	if _, sp := q.GetNegativeValueStore().(*store.SparseStore); sp {
		return false
	}
	return true
}

// SketchWorld: a tuple of sketches over one mapping (slots may be replaced by
// sketches of another mapping through ChangeMapping), their reference models
// and optional twins.
type SketchWorld struct {
	Spec MapSpec
	Map  mapping.IndexMapping
	S    []*SkSlot
	M    []*SkModel
	T    []*SkSlot // C15 twin world: Clear == replace by a new object
	// SkipReads: the twin world runs the same history without its read-only
	// operations (C14) instead
	SkipReads bool
	// err is the result of the last fallible operation on the main world
	err error
}

func sameSpec(a, b *SkModel) bool { return a.Spec == b.Spec }

type skOp struct {
	name   string
	real   func(w *SketchWorld, st []*SkSlot, twin bool)
	mod    func(w *SketchWorld)
	writes uint32
	tag    string
	slot   int
	src    int
	factor float64
}

func (o skOp) toOp() mc.Op[*SketchWorld] {
	return mc.Op[*SketchWorld]{Name: o.name, Writes: o.writes, Do: func(w *SketchWorld) {
		o.real(w, w.S, false)
		if w.T != nil {
			if !w.SkipReads {
				o.real(w, w.T, true)
			} else if o.tag != "read" {
				// (the twin flag only tells an operation not to record its error)
				o.real(w, w.T, true)
			}
		}
		o.mod(w)
	}}
}

func skWithOrder(o skOp, ord mapOrder) skOp {
	inner := o.real
	o.name = "[map order " + ord.name + "] " + o.name
	o.real = func(w *SketchWorld, st []*SkSlot, twin bool) {
		SetMapOrder(ord.perm)
		defer SetMapOrder(nil)
		inner(w, st, twin)
	}
	return o
}

func must(err error, what string) {
	if err != nil {
		panic(what + ": " + err.Error())
	}
}

func skAdd(s int, v float64) skOp {
	return skOp{name: fmt.Sprintf("%s.Add(%s)", slotName(s), fstr(v)), tag: "add", writes: 1 << uint(s),
		real: func(_ *SketchWorld, st []*SkSlot, _ bool) { must(st[s].Q().Add(v), "Add of a trackable value refused") },
		mod:  func(w *SketchWorld) { w.M[s].Add(v, 1) }}
}
func skAddW(s int, v, c float64) skOp {
	return skOp{name: fmt.Sprintf("%s.AddWithCount(%s, %s)", slotName(s), fstr(v), fstr(c)), tag: "add", writes: 1 << uint(s),
		real: func(_ *SketchWorld, st []*SkSlot, _ bool) {
			must(st[s].Q().AddWithCount(v, c), "AddWithCount of a trackable value refused")
		},
		mod: func(w *SketchWorld) { w.M[s].Add(v, c) }}
}
func skMerge(a, b int) skOp {
	return skOp{name: fmt.Sprintf("%s.MergeWith(%s)", slotName(a), slotName(b)), tag: "merge", writes: 1 << uint(a),
		real: func(w *SketchWorld, st []*SkSlot, twin bool) {
			if twin && w.SkipReads {
				// read-free twin: being the argument of a merge is a read too; the twin
				// merges a copy, so its argument is never touched
				st[a].MergeWith(st[b].CopyOf())
				return
			}
			err := st[a].MergeWith(st[b])
			if !twin {
				w.err = err
			}
		},
		mod: func(w *SketchWorld) {
			if w.err != nil {
				if sameSpec(w.M[a], w.M[b]) {
					panic("MergeWith of a sketch with the same mapping refused: " + w.err.Error())
				}
				return
			}
			w.M[a].MergeFrom(w.M[b])
		}}
}
func skCopy(a, b int) skOp {
	return skOp{name: fmt.Sprintf("%s = %s.Copy()", slotName(a), slotName(b)), tag: "copy", writes: 1 << uint(a), slot: a, src: b,
		real: func(_ *SketchWorld, st []*SkSlot, _ bool) { st[a] = st[b].CopyOf() },
		mod:  func(w *SketchWorld) { w.M[a] = w.M[b].CopyFor(w.S[b].Store) }}
}
func skClear(s int) skOp {
	return skOp{name: fmt.Sprintf("%s.Clear()", slotName(s)), tag: "clear", writes: 1 << uint(s),
		real: func(w *SketchWorld, st []*SkSlot, twin bool) {
			if twin && !w.SkipReads {
				st[s] = NewSkSlot(st[s].Mapping(), st[s].Store, st[s].Exact)
			} else {
				st[s].Q().Clear()
			}
		},
		mod: func(w *SketchWorld) { w.M[s].Clear() }}
}
func skReweight(s int, f float64) skOp {
	return skOp{name: fmt.Sprintf("%s.Reweight(%s)", slotName(s), fstr(f)), tag: "reweight", writes: 1 << uint(s), slot: s, factor: f,
		real: func(_ *SketchWorld, st []*SkSlot, _ bool) {
			must(st[s].Q().Reweight(f), "Reweight by a positive factor refused")
		},
		mod: func(w *SketchWorld) { w.M[s].Scale(f) }}
}

// skCodec: a.DecodeAndMergeWith(b.Encode(omit)); with replace a is first
// rebuilt by the decoder constructor (mapping supplied iff omitted).
func skCodec(a, b int, replace, omit bool) skOp {
	n := fmt.Sprintf("%s.DecodeAndMergeWith(%s.Encode(omitMapping=%v))", slotName(a), slotName(b), omit)
	if replace {
		n = fmt.Sprintf("%s = Decode(%s.Encode(omitMapping=%v))", slotName(a), slotName(b), omit)
	}
	return skOp{name: n, tag: "codec", writes: 1 << uint(a),
		real: func(w *SketchWorld, st []*SkSlot, twin bool) {
			if !replace && !sameSpec(w.M[a], w.M[b]) {
				// decoding a stream of another mapping fails part-way (C08 judges the
				// error); what a failed decode leaves behind is not specified
				return
			}
			var buf []byte
			st[b].Q().Encode(&buf, omit)
			if replace {
				var m mapping.IndexMapping
				if omit {
					m = st[b].Mapping()
				}
				c, err := DecodeSlot(buf, st[a].Store, st[a].Exact, m)
				must(err, "decoding a sketch's own encoding failed")
				st[a] = c
			} else {
				err := st[a].Q().DecodeAndMergeWith(buf)
				if !twin {
					w.err = err
				}
			}
		},
		mod: func(w *SketchWorld) {
			src := w.M[b]
			if replace {
				w.M[a] = NewSkModel(w.S[a].Store, src.Spec, src.Map)
			} else if !sameSpec(w.M[a], src) {
				return
			} else if w.err != nil {
				panic("DecodeAndMergeWith of the encoding of a sketch with the same mapping failed: " + w.err.Error())
			}
			w.M[a].MergeFrom(src)
		}}
}
func skProto(a, b int) skOp {
	return skOp{name: fmt.Sprintf("%s = FromProtoWithStoreProvider(%s.ToProto())", slotName(a), slotName(b)), tag: "proto", writes: 1 << uint(a),
		real: func(_ *SketchWorld, st []*SkSlot, _ bool) {
			if st[a].Exact {
				panic("proto op is for plain sketches")
			}
			c, err := ddsketch.FromProtoWithStoreProvider(st[b].P.ToProto(), st[a].Store.Provider())
			must(err, "FromProto of a sketch's own message failed")
			st[a] = &SkSlot{Store: st[a].Store, P: c}
		},
		mod: func(w *SketchWorld) {
			src := w.M[b]
			w.M[a] = NewSkModel(w.S[a].Store, src.Spec, src.Map)
			w.M[a].MergeFrom(src)
		}}
}
func skRead(s int) skOp {
	return skOp{name: fmt.Sprintf("read %s: quantiles, min, max, sum, ForEach (complete, stopped after 1 and 2 bins)", slotName(s)), tag: "read",
		real: func(_ *SketchWorld, st []*SkSlot, _ bool) {
			q := st[s].Q()
			q.GetValueAtQuantile(0.5)
			q.GetValuesAtQuantiles([]float64{0, 1})
			q.GetMinValue()
			q.GetMaxValue()
			q.GetSum()
			q.GetCount()
			q.ForEach(func(float64, float64) bool { return false })
			for k := 1; k <= 2; k++ {
				n := 0
				q.ForEach(func(float64, float64) bool { n++; return n >= k })
			}
		},
		mod: func(*SketchWorld) {}}
}
func skReadEncode(s int) skOp {
	return skOp{name: fmt.Sprintf("read %s: Encode, ToProto, EncodeProto, Copy", slotName(s)), tag: "read",
		real: func(_ *SketchWorld, st []*SkSlot, _ bool) {
			var buf []byte
			st[s].Q().Encode(&buf, false)
			if !st[s].Exact {
				st[s].P.ToProto()
				st[s].P.EncodeProto(discard{})
			}
			st[s].CopyOf()
		},
		mod: func(*SketchWorld) {}}
}

type discard struct{}

func (discard) Write(p []byte) (int, error) { return len(p), nil }

// SketchScenarioSpec declares one sketch-world scenario.
type SketchScenarioSpec struct {
	Name     string
	Property string
	Map      MapSpec
	Stores   []Kind
	Exact    bool
	Ops      []skOp
	Seeds    []mc.Seed[*SketchWorld]
	Depth    int
	Twin     bool
	// NoReadTwin: the twin world runs the same history without its read-only operations (C14)
	NoReadTwin bool
	Frame      string
	LastTags   []string
	// Checks are the state oracles of the property (run on a disposable instance).
	Checks []func(w *SketchWorld, slot int) []mc.Fail
	// ContentClause compares bins and zero weight with the reference, exactly.
	ContentClause string
	Transition    func(parent, child *SketchWorld, op skOp) []mc.Fail
	WantTag       string
	// Ctor, if non-nil, builds slot i through one of the library's convenience
	// constructors instead of NewDDSketch (nil result = use the default); Map and
	// Stores state what that constructor is documented to produce, and the
	// reference is built from them, not from the object.
	Ctor func(slot int) *SkSlot
}

func skSeed(name string, ops ...skOp) mc.Seed[*SketchWorld] {
	s := mc.Seed[*SketchWorld]{Name: name}
	for _, o := range ops {
		s.Ops = append(s.Ops, o.toOp())
	}
	return s
}

func (sp *SketchScenarioSpec) Build() *mc.Scenario[*SketchWorld] {
	sc := &mc.Scenario[*SketchWorld]{Name: sp.Name, Property: sp.Property, Depth: sp.Depth, Slots: len(sp.Stores), Seeds: sp.Seeds, FrameClause: sp.Frame}
	for _, o := range sp.Ops {
		sc.Ops = append(sc.Ops, o.toOp())
	}
	if sp.LastTags != nil {
		sc.LastOps = []int{}
		for i, o := range sp.Ops {
			for _, t := range sp.LastTags {
				if o.tag == t {
					sc.LastOps = append(sc.LastOps, i)
				}
			}
		}
	}
	sc.Fresh = func() *SketchWorld {
		w := &SketchWorld{Spec: sp.Map, Map: sp.Map.New(), SkipReads: sp.NoReadTwin}
		for i, k := range sp.Stores {
			var sl *SkSlot
			if sp.Ctor != nil {
				sl = sp.Ctor(i)
			}
			if sl == nil {
				sl = NewSkSlot(w.Map, k, sp.Exact)
			}
			w.S = append(w.S, sl)
			w.M = append(w.M, NewSkModel(k, sp.Map, w.Map))
			if sp.Twin || sp.NoReadTwin {
				var tw *SkSlot
				if sp.Ctor != nil {
					tw = sp.Ctor(i)
				}
				if tw == nil {
					tw = NewSkSlot(w.Map, k, sp.Exact)
				}
				w.T = append(w.T, tw)
			}
		}
		return w
	}
	sc.Dump = func(w *SketchWorld, d *mc.Dumper) {
		for i := range w.S {
			d.Str(w.S[i].Store.String())
			if w.S[i].Exact {
				d.Value(w.S[i].E)
			} else {
				d.Value(w.S[i].P)
			}
			if w.T != nil {
				if w.T[i].Exact {
					d.Value(w.T[i].E)
				} else {
					d.Value(w.T[i].P)
				}
			}
			w.M[i].dump(d)
		}
	}
	sc.Abstract = func(w *SketchWorld) (uint64, bool) {
		h := fnv.New64a()
		nt := false
		for i := range w.M {
			c := w.M[i].Content()
			if len(w.M[i].Ent) > 0 {
				nt = true
			}
			h.Write([]byte(w.S[i].Store.String()))
			h.Write([]byte(c))
			for _, e := range w.M[i].Ent {
				fmt.Fprintf(h, "%x/%x,", e.V, e.W)
			}
		}
		return h.Sum64(), nt
	}
	sc.Events = func(w *SketchWorld, ev map[string]int64) {
		for i := range w.S {
			q := w.S[i].Q()
			storeLayoutEvents(q.GetPositiveValueStore(), ev)
			storeLayoutEvents(q.GetNegativeValueStore(), ev)
		}
	}
	sc.Check = func(w *SketchWorld) (obs []uint64, fails []mc.Fail) {
		for i := range w.S {
			q := w.S[i].Q()
			real := ObserveSketch(q)
			obs = append(obs, digest(real))
			if sp.ContentClause != "" && !w.M[i].Approx {
				if got, want := SketchContent(q), w.M[i].Content(); got != want {
					fails = append(fails, mc.Fail{Clause: sp.ContentClause,
						Detail: fmt.Sprintf("slot %s (%s store, %s) bins differ from the reference\n  got:  %s\n  want: %s", slotName(i), w.S[i].Store, w.M[i].Spec, got, want)})
				}
			}
			if sp.NoReadTwin {
				if twin := ObserveSketch(w.T[i].Q()); real != twin {
					fails = append(fails, mc.Fail{Clause: "C14.reads-leave-no-trace",
						Detail: fmt.Sprintf("slot %s (%s store): the same history without its read-only operations (and with every merge argument replaced by a copy) leads to other answers\n  with reads:    %s\n  without reads: %s", slotName(i), w.S[i].Store, real, twin)})
				}
			}
			if sp.Twin {
				if twin := ObserveSketch(w.T[i].Q()); real != twin {
					fails = append(fails, mc.Fail{Clause: "C15.clear-equals-new",
						Detail: fmt.Sprintf("slot %s (%s store): the cleared-and-reused sketch differs from a twin that was replaced by a new sketch at each Clear\n  reused: %s\n  fresh:  %s", slotName(i), w.S[i].Store, real, twin)})
				}
			}
			for _, c := range sp.Checks {
				fails = append(fails, c(w, i)...)
			}
		}
		return
	}
	sc.Explain = func(w *SketchWorld, slot int) string { return ObserveSketch(w.S[slot].Q()) }
	if sp.Transition != nil {
		sc.WantTransition = func(op int) bool { return sp.WantTag == "" || sp.Ops[op].tag == sp.WantTag }
		sc.Transition = func(parent, child *SketchWorld, op int) []mc.Fail { return sp.Transition(parent, child, sp.Ops[op]) }
	}
	return sc
}

func shardsOfSketchSpecs(specs []*SketchScenarioSpec) []mc.Shard {
	var out []mc.Shard
	for _, sp := range specs {
		sc := sp.Build()
		out = append(out, mc.ShardOf(sc, len(sc.Ops)*max(len(sc.Seeds), 1)))
	}
	return out
}

// mapping grid G of DESIGN.md section 4
func mapGrid(tier string) []MapSpec {
	alphas := []float64{0.5, 0.1, 0.02}
	if tier == "thorough" {
		alphas = append(alphas, 0.99, 0.25, 0.01, 1e-3)
	}
	var out []MapSpec
	for _, k := range []byte{'G', 'I', 'C'} {
		for _, a := range alphas {
			out = append(out, MapSpec{Kind: k, Alpha: a})
		}
	}
	return out
}

var nonCollapsing = []Kind{{K: 'D'}, {K: 'S'}, {K: 'P'}}

// sketchCtor names one convenience constructor of the library together with
// what it is documented to build (logarithmic mapping of the given accuracy;
// store kind).
type sketchCtor struct {
	Name  string
	Store func(n int) Kind
	Exact bool
	New   func(alpha float64, n int) *SkSlot
}

func plainSlot(k Kind) func(*ddsketch.DDSketch, error) *SkSlot {
	return func(s *ddsketch.DDSketch, err error) *SkSlot {
		must(err, "constructor refused a valid accuracy")
		return &SkSlot{Store: k, P: s}
	}
}

var sketchCtors = []sketchCtor{
	{Name: "NewDefaultDDSketch", Store: func(int) Kind { return Kind{K: 'P'} },
		New: func(a float64, _ int) *SkSlot { return plainSlot(Kind{K: 'P'})(ddsketch.NewDefaultDDSketch(a)) }},
	{Name: "LogUnboundedDenseDDSketch", Store: func(int) Kind { return Kind{K: 'D'} },
		New: func(a float64, _ int) *SkSlot { return plainSlot(Kind{K: 'D'})(ddsketch.LogUnboundedDenseDDSketch(a)) }},
	{Name: "LogCollapsingLowestDenseDDSketch", Store: func(n int) Kind { return Kind{K: 'L', N: n} },
		New: func(a float64, n int) *SkSlot {
			return plainSlot(Kind{K: 'L', N: n})(ddsketch.LogCollapsingLowestDenseDDSketch(a, n))
		}},
	{Name: "LogCollapsingHighestDenseDDSketch", Store: func(n int) Kind { return Kind{K: 'H', N: n} },
		New: func(a float64, n int) *SkSlot {
			return plainSlot(Kind{K: 'H', N: n})(ddsketch.LogCollapsingHighestDenseDDSketch(a, n))
		}},
	{Name: "NewDefaultDDSketchWithExactSummaryStatistics", Exact: true, Store: func(int) Kind { return Kind{K: 'P'} },
		New: func(a float64, _ int) *SkSlot {
			e, err := ddsketch.NewDefaultDDSketchWithExactSummaryStatistics(a)
			must(err, "constructor refused a valid accuracy")
			return &SkSlot{Store: Kind{K: 'P'}, Exact: true, E: e}
		}},
	{Name: "NewDDSketchWithExactSummaryStatisticsFromData(NewDDSketchFromStoreProvider(log, store.SparseStoreConstructor), NewSummaryStatistics())", Exact: true, Store: func(int) Kind { return Kind{K: 'S'} },
		New: func(a float64, _ int) *SkSlot {
			m, err := mapping.NewDefaultMapping(a)
			must(err, "NewDefaultMapping refused a valid accuracy")
			e, err := ddsketch.NewDDSketchWithExactSummaryStatisticsFromData(ddsketch.NewDDSketchFromStoreProvider(m, store.SparseStoreConstructor), stat.NewSummaryStatistics())
			must(err, "an empty sketch with empty statistics was refused")
			return &SkSlot{Store: Kind{K: 'S'}, Exact: true, E: e}
		}},
	{Name: "NewDDSketchFromStoreProvider(NewDefaultMapping, store.DenseStoreConstructor)", Store: func(int) Kind { return Kind{K: 'D'} },
		New: func(a float64, _ int) *SkSlot {
			m, err := mapping.NewDefaultMapping(a)
			must(err, "NewDefaultMapping refused a valid accuracy")
			return &SkSlot{Store: Kind{K: 'D'}, P: ddsketch.NewDDSketchFromStoreProvider(m, store.DenseStoreConstructor)}
		}},
}

func ctorByName(name string) sketchCtor {
	for _, c := range sketchCtors {
		if strings.HasPrefix(c.Name, name) {
			return c
		}
	}
	panic("no constructor " + name)
}
