package props

import (
	"bytes"
	"fmt"
	"math"
	"time"

	enc "github.com/DataDog/sketches-go/ddsketch/encoding"
	"github.com/DataDog/sketches-go/ddsketch/mapping"
	"github.com/DataDog/sketches-go/ddsketch/pb/sketchpb"
	"google.golang.org/protobuf/proto"

	"verif/mc"
)

// mapCfg: one mapping of the C03 / C19 grids, always (re)built from a base and
// an offset, as decoders do; Alpha is the accuracy the base was derived from.
type mapCfg struct {
	Kind      byte
	Alpha     float64
	OffName   string
	Offset    float64
	DefaultOf bool
	// Gamma != 0: the mapping is given by its base (as a decoder receives it),
	// e.g. a power of two, for which the interpolated mappings' multipliers are
	// exact; its accuracy is then the one it reports, cross-checked by rebuilding
	// a mapping from that accuracy and comparing the bases.
	Gamma float64
}

func (c mapCfg) String() string {
	if c.Gamma != 0 {
		return fmt.Sprintf("%s(gamma=%s,offset=%s)", map[byte]string{'G': "log", 'I': "lin", 'C': "cub"}[c.Kind], fstr(c.Gamma), c.OffName)
	}
	return fmt.Sprintf("%s(alpha=%s,offset=%s)", map[byte]string{'G': "log", 'I': "lin", 'C': "cub"}[c.Kind], fstr(c.Alpha), c.OffName)
}

func (c mapCfg) build() (m, fromAccuracy mapping.IndexMapping) {
	if c.Gamma != 0 {
		m = MapSpec{Kind: c.Kind, Gamma: c.Gamma, Offset: c.Offset}.New()
		fromAccuracy = MapSpec{Kind: c.Kind, Alpha: m.RelativeAccuracy()}.New()
		return
	}
	fromAccuracy = MapSpec{Kind: c.Kind, Alpha: c.Alpha}.New()
	gamma, off := mapParams(fromAccuracy)
	if !c.DefaultOf {
		off = c.Offset
	}
	m = MapSpec{Kind: c.Kind, Gamma: gamma, Offset: off}.New()
	return
}

type offCfg struct {
	name string
	v    float64
	def  bool
}

var c03Offsets = []offCfg{{"default", 0, true}, {"0", 0, false}, {"0.5", 0.5, false}, {"-7.25", -7.25, false}, {"1234.5", 1234.5, false},
	{"1e6+0.75", 1e6 + 0.75, false}, {"-1e6-0.75", -1e6 - 0.75, false}, {"1e9", 1e9, false}, {"-1e9", -1e9, false},
	{"2.1e9", 2.1e9, false}, {"-2.1e9", -2.1e9, false}, {"2^31-100", 2147483548, false}, {"-2^31+100", -2147483548, false}}

type c03Run struct {
	res      *mc.Result
	cfg      mapCfg
	m        mapping.IndexMapping
	alpha    float64
	gamma    float64
	offset   float64
	lnGamma  float64
	min, max float64
	topIdx   int
	notes    int
	prevIdx  int
	prevV    float64
	havePrev bool
	points   int64
}

func (r *c03Run) fail(clause, format string, a ...any) {
	if len(r.res.Violations) >= 4 {
		return
	}
	d := r.cfg.String() + ": " + fmt.Sprintf(format, a...)
	r.res.Violations = append(r.res.Violations, mc.Violation{Property: "C03", Clause: clause, Scenario: r.res.Scenario, Seed: "value", History: []string{d}, Detail: d})
}

func (r *c03Run) eps(v float64) float64 {
	return math.Ldexp(1, -48) + math.Ldexp(1, -49)*(math.Abs(math.Log(v))+math.Abs(r.offset)*r.lnGamma)
}

// probe checks every clause at one value inside the indexable range; values
// must be fed in non-decreasing order between calls to resetOrder.
func (r *c03Run) probe(v float64) {
	if !(v >= r.min && v <= r.max) {
		return
	}
	r.points++
	idx := r.m.Index(v)
	if idx > math.MaxInt32 || idx < math.MinInt32 {
		r.fail("C03.int32", "Index(%v)=%d does not fit in 32 bits", v, idx)
		return
	}
	if r.havePrev && v >= r.prevV && idx < r.prevIdx {
		r.fail("C03.monotone", "Index(%v)=%d but Index(%v)=%d", r.prevV, r.prevIdx, v, idx)
	}
	r.prevIdx, r.prevV, r.havePrev = idx, v, true
	e := r.eps(v)
	val := r.m.Value(idx)
	d := math.Abs(val - v)
	if allowed := v * (r.alpha + e); !(d <= allowed) {
		r.fail("C03.accuracy", "v=%v (bits %#x) is mapped to bin %d whose representative %v is %v away, more than alpha*v=%v", v, math.Float64bits(v), idx, val, d, r.alpha*v)
	} else if d > r.alpha*v {
		mc.Allow("C03 accuracy rounding allowance", (d-r.alpha*v)/(e*v))
	}
	lo, hi := r.m.LowerBound(idx), r.m.LowerBound(idx+1)
	if !(lo*(1-e) <= v) {
		r.fail("C03.containment", "v=%v (bits %#x) is in bin %d but below its lower bound %v", v, math.Float64bits(v), idx, lo)
	} else if lo > v {
		mc.Allow("C03 containment rounding allowance", (lo-v)/(e*lo))
	}
	// the bin above the top indexable bin has no meaningful lower bound
	if !math.IsInf(hi, 0) && !math.IsNaN(hi) && idx < r.topIdx {
		if !(v <= hi*(1+e)) {
			r.fail("C03.containment", "v=%v (bits %#x) is in bin %d but above the next bin's lower bound %v", v, math.Float64bits(v), idx, hi)
		} else if v > hi {
			mc.Allow("C03 containment rounding allowance", (v-hi)/(e*hi))
		}
	}
}

func (r *c03Run) resetOrder() { r.havePrev = false }

func ulps(v float64, n int) float64 {
	b := math.Float64bits(v)
	return math.Float64frombits(uint64(int64(b) + int64(n)))
}

// bin probes: the lower bound of bin i +-2 ulps, and the exact float at which
// Index steps from below i to i (bisection on the bit pattern) with neighbours.
func (r *c03Run) probeBin(i int) {
	L := r.m.LowerBound(i)
	if !(L > 0) || math.IsInf(L, 0) || math.IsNaN(L) {
		return
	}
	lo, hi := L*(1-1e-9), L*(1+1e-9)
	if lo < r.min {
		lo = r.min
	}
	if hi > r.max {
		hi = r.max
	}
	var pts [16]float64
	n := 0
	add := func(v float64) {
		if v >= r.min && v <= r.max {
			pts[n] = v
			n++
		}
	}
	add(lo)
	if lo < hi && r.m.Index(lo) < i && r.m.Index(hi) >= i {
		a, b := math.Float64bits(lo), math.Float64bits(hi)
		for b-a > 1 {
			mid := a + (b-a)/2
			if r.m.Index(math.Float64frombits(mid)) >= i {
				b = mid
			} else {
				a = mid
			}
		}
		step := math.Float64frombits(b)
		add(ulps(step, -2))
		add(ulps(step, -1))
		add(step)
		add(ulps(step, 1))
		// where the step sits relative to the bin's lower bound (reported, not judged here)
		mc.Allow("C03 distance of the Index step from LowerBound, as a fraction of the containment allowance", math.Abs(step-L)/(r.eps(L)*L))
	}
	for k := -2; k <= 2; k++ {
		add(ulps(L, k))
	}
	add(hi)
	// feed in increasing order
	ps := pts[:n]
	for x := 1; x < len(ps); x++ {
		for y := x; y > 0 && ps[y] < ps[y-1]; y-- {
			ps[y], ps[y-1] = ps[y-1], ps[y]
		}
	}
	for _, v := range ps {
		r.probe(v)
	}
}

func c03Shard(cfg mapCfg, part, parts, tbits int, stride int) mc.Shard {
	name := fmt.Sprintf("C03/%s/part%d-of-%d", cfg, part+1, parts)
	run := func(deadline time.Time) *mc.Result {
		start := time.Now()
		res := &mc.Result{Scenario: name, Property: "C03", Exhaustive: true}
		m, fromAcc := cfg.build()
		gamma, offset := mapParams(m)
		r := &c03Run{res: res, cfg: cfg, m: m, alpha: cfg.Alpha, gamma: gamma, offset: offset, lnGamma: math.Log(gamma),
			min: m.MinIndexableValue(), max: m.MaxIndexableValue()}
		r.topIdx = m.Index(r.max)
		if cfg.Gamma != 0 {
			// the accuracy of a mapping given by its base is the one it reports, provided
			// a mapping built from that accuracy has the same base
			r.alpha = m.RelativeAccuracy()
			if g2, _ := mapParams(fromAcc); !(math.Abs(g2-cfg.Gamma) <= 1e-9*cfg.Gamma) || !(r.alpha > 0 && r.alpha < 1) {
				r.fail("C03.reported-accuracy", "built with base %v it reports accuracy %v, but a mapping built from that accuracy has base %v", cfg.Gamma, r.alpha, g2)
			}
		}
		if part == 0 && cfg.Gamma == 0 {
			for _, mm := range []mapping.IndexMapping{m, fromAcc} {
				if ra := mm.RelativeAccuracy(); math.Abs(ra-cfg.Alpha) > math.Ldexp(1, -49) {
					r.fail("C03.reported-accuracy", "RelativeAccuracy()=%v, built with %v", ra, cfg.Alpha)
				} else {
					mc.Allow("C03 reported accuracy", math.Abs(ra-cfg.Alpha)/math.Ldexp(1, -49))
				}
			}
		}
		if part == 0 {
			if !(r.min > 0) || !(r.max > r.min) || math.IsInf(r.max, 0) {
				r.fail("C03.range", "indexable range [%v, %v] is not a positive finite interval", r.min, r.max)
			}
			// range ends, their inward neighbours, the first values outside (no panic)
			for _, v := range []float64{r.min, ulps(r.min, 1), ulps(r.min, 2), ulps(r.max, -2), ulps(r.max, -1), r.max} {
				r.resetOrder()
				r.probe(v)
			}
			func() {
				defer func() {
					if p := recover(); p != nil {
						r.fail("C03.no-panic", "Index just outside the range panicked: %v", p)
					}
				}()
				m.Index(ulps(r.min, -1))
				m.Index(ulps(r.max, 1))
			}()
			// binade boundaries
			r.resetOrder()
			for e := -1022; e <= 1023; e++ {
				p := math.Ldexp(1, e)
				for k := -2; k <= 2; k++ {
					r.probe(ulps(p, k))
				}
			}
			// T-bit significand lattice
			r.resetOrder()
			for e := -1022; e <= 1023; e++ {
				for s := 0; s < 1<<uint(tbits); s++ {
					r.probe(math.Ldexp(1+float64(s)/float64(int(1)<<uint(tbits)), e))
				}
			}
		}
		// every bin (strided in the quick tier for the finest mappings)
		iMin, iMax := m.Index(r.min), m.Index(r.max)
		span := iMax - iMin + 1
		from := iMin + span/parts*part
		to := iMin + span/parts*(part+1)
		if part == parts-1 {
			to = iMax + 1
		}
		r.resetOrder()
		var bins int64
		for i := from; i <= to && i <= iMax+1; i += stride {
			if stride > 1 {
				r.resetOrder()
			}
			r.probeBin(i)
			bins++
			if bins&0xffff == 0 && time.Now().After(deadline) {
				res.Exhaustive = false
				res.Incidents = append(res.Incidents, fmt.Sprintf("%s: deadline reached at bin %d of [%d,%d]", name, i, from, to))
				break
			}
		}
		res.Evaluations = r.points
		res.Distinct = r.points
		res.Count("bins_probed", bins)
		res.Count("bin_stride", int64(stride))
		res.Samples = []string{fmt.Sprintf("%s: bins %d..%d of [%d,%d], each at its lower bound +-2 ulps and at the exact Index step +-2 ulps", cfg, from, to, iMin, iMax)}
		mc.FlushSide(res)
		res.WallS = time.Since(start).Seconds()
		return res
	}
	weight := 10
	if cfg.Alpha > 0 {
		weight = int(1 / cfg.Alpha)
	}
	return mc.Shard{Name: name, Weight: weight, Run: run, Replay: func(string, []string) ([]mc.Fail, error) {
		res := run(time.Now().Add(20 * time.Minute))
		var fails []mc.Fail
		for _, v := range res.Violations {
			fails = append(fails, mc.Fail{Clause: v.Clause, Detail: v.Detail})
		}
		return fails, nil
	}}
}

func c03Shards(tier string) []mc.Shard {
	alphas := []float64{0.99, 0.75, 0.5, 0.25, 0.1, 0.05, 0.02, 0.01, 5e-3, 1e-3}
	tbits := 8
	if tier == "thorough" {
		alphas = append(alphas, 1e-4, 1e-5, 1e-6)
		tbits = 12
	}
	var out []mc.Shard
	for _, k := range []byte{'G', 'I', 'C'} {
		for _, a := range alphas {
			for oi, o := range c03Offsets {
				if a <= 1e-5 && !(oi == 0 || oi == 4) {
					continue
				}
				cfg := mapCfg{Kind: k, Alpha: a, OffName: o.name, Offset: o.v, DefaultOf: o.def}
				parts := 1
				if a <= 1e-5 {
					parts = 16
				}
				if a == 1e-4 {
					parts = 2
				}
				for p := 0; p < parts; p++ {
					out = append(out, c03Shard(cfg, p, parts, tbits, 1))
				}
			}
		}
		// mappings given by their base, as a decoder receives them: powers of two
		// (the interpolated mappings' multipliers are then exact and whole offsets
		// put bin edges on whole log2 values) and two other exactly representable bases
		for _, g := range []float64{2, 4, 16, 1.5, 1.0625} {
			for _, o := range []offCfg{{"0", 0, false}, {"1", 1, false}, {"-3", -3, false}, {"0.5", 0.5, false}, {"1234", 1234, false}} {
				out = append(out, c03Shard(mapCfg{Kind: k, Gamma: g, OffName: o.name, Offset: o.v}, 0, 1, tbits, 1))
			}
		}
	}
	return out
}

// ---- C19 ----

var c19Alphas = []float64{0.99, 0.75, 0.5, 0.25, 0.1, 0.05, 0.02, 0.01, 5e-3, 1e-3, 1e-4, 1e-5, 1e-6}
var c19Offsets = []offCfg{{"default", 0, true}, {"0", 0, false}, {"0.5", 0.5, false}, {"-7.25", -7.25, false}, {"1234.5", 1234.5, false},
	{"1e6+0.75", 1e6 + 0.75, false}, {"-1e9", -1e9, false}, {"3", 3, false}, {"-2^31+100", -2147483548, false}}

func c19Grid() []mapCfg {
	var out []mapCfg
	for _, k := range []byte{'G', 'I', 'C'} {
		for _, a := range c19Alphas {
			for _, o := range c19Offsets {
				out = append(out, mapCfg{Kind: k, Alpha: a, OffName: o.name, Offset: o.v, DefaultOf: o.def})
			}
		}
	}
	return out
}

func probeValues(m mapping.IndexMapping, n int) []float64 {
	lo, hi := math.Log(m.MinIndexableValue()), math.Log(m.MaxIndexableValue())
	vs := []float64{m.MinIndexableValue(), m.MaxIndexableValue(), 1, 2, 0.5}
	for i := 0; i < n; i++ {
		v := math.Exp(lo + (hi-lo)*(float64(i)+0.5)/float64(n))
		if v >= m.MinIndexableValue() && v <= m.MaxIndexableValue() {
			vs = append(vs, v)
		}
	}
	return vs
}

func sameBehaviour(a, b mapping.IndexMapping, n int) string {
	for _, v := range probeValues(a, n) {
		ia, ib := a.Index(v), b.Index(v)
		if ia != ib {
			return fmt.Sprintf("Index(%v) = %d vs %d", v, ia, ib)
		}
		for _, i := range []int{ia, ia + 1} {
			if math.Float64bits(a.Value(i)) != math.Float64bits(b.Value(i)) || math.Float64bits(a.LowerBound(i)) != math.Float64bits(b.LowerBound(i)) {
				return fmt.Sprintf("Value/LowerBound(%d) = %v/%v vs %v/%v", i, a.Value(i), a.LowerBound(i), b.Value(i), b.LowerBound(i))
			}
		}
	}
	if a.MinIndexableValue() != b.MinIndexableValue() || a.MaxIndexableValue() != b.MaxIndexableValue() || a.RelativeAccuracy() != b.RelativeAccuracy() {
		return "indexable range or reported accuracy differ"
	}
	return ""
}

func c19Shards(tier string) []mc.Shard {
	grid := c19Grid()
	nprobe := 400
	if tier == "thorough" {
		nprobe = 2000
	}
	nsh := 13
	var out []mc.Shard
	for sh := 0; sh < nsh; sh++ {
		sh := sh
		name := fmt.Sprintf("C19/mappings/%d-of-%d", sh+1, nsh)
		run := func(time.Time) *mc.Result {
			start := time.Now()
			res := &mc.Result{Scenario: name, Property: "C19", Exhaustive: true}
			fail := func(clause, format string, a ...any) {
				if len(res.Violations) < 4 {
					d := fmt.Sprintf(format, a...)
					res.Violations = append(res.Violations, mc.Violation{Property: "C19", Clause: clause, Scenario: name, Seed: "mapping", History: []string{d}, Detail: d})
				}
			}
			built := make([]mapping.IndexMapping, len(grid))
			for i, c := range grid {
				built[i], _ = c.build()
			}
			for i, c := range grid {
				if i%nsh != sh {
					continue
				}
				m, fromAcc := c.build()
				res.Evaluations++
				// binary form
				var b []byte
				m.Encode(&b)
				bb := b
				flag, err := enc.DecodeFlag(&bb)
				var dec mapping.IndexMapping
				if err == nil {
					dec, err = mapping.Decode(&bb, flag)
				}
				// the encoded bytes belong to the caller: scribbling over them, reusing the
				// buffer for another mapping and encoding again must give the same bytes
				{
					var b1 []byte
					m.Encode(&b1)
					want := append([]byte{}, b1...)
					for x := range b1 {
						b1[x] = 0xff
					}
					b1 = b1[:0]
					built[(i+1)%len(built)].Encode(&b1)
					var b2 []byte
					m.Encode(&b2)
					b3 := make([]byte, 2, 64)
					m.Encode(&b3)
					if !bytes.Equal(b2, want) || !bytes.Equal(b3[2:], want) {
						fail("C19.binary", "%s: encoded again after the caller overwrote and reused the first buffer, the bytes are % x / % x instead of % x", c, b2, b3[2:], want)
					}
				}
				forms := map[string]mapping.IndexMapping{}
				if err != nil || len(bb) != 0 {
					fail("C19.binary", "%s: binary round trip failed: %v (%d bytes left)", c, err, len(bb))
				} else {
					forms["binary"] = dec
				}
				// protobuf message
				raw, _ := proto.Marshal(m.ToProto())
				var pm sketchpb.IndexMapping
				if err := proto.Unmarshal(raw, &pm); err != nil {
					fail("C19.proto", "%s: unmarshal: %v", c, err)
				} else if fm, err := mapping.FromProto(&pm); err != nil {
					fail("C19.proto", "%s: FromProto: %v", c, err)
				} else {
					forms["protobuf message"] = fm
				}
				// streaming writer
				var buf bytes.Buffer
				m.EncodeProto(sketchpb.NewIndexMappingBuilder(&buf))
				var sm sketchpb.IndexMapping
				if err := proto.Unmarshal(buf.Bytes(), &sm); err != nil {
					fail("C19.proto-stream", "%s: the streaming writer's bytes do not unmarshal: %v", c, err)
				} else if fm, err := mapping.FromProto(&sm); err != nil {
					fail("C19.proto-stream", "%s: FromProto of the streamed message: %v", c, err)
				} else {
					forms["protobuf stream"] = fm
					if !proto.Equal(&sm, m.ToProto()) {
						fail("C19.proto-stream", "%s: streamed message %v differs from ToProto %v", c, &sm, m.ToProto())
					}
				}
				// mappings that share some but not all parameters with this one (kind,
				// base, offset), read right after it, must come back as themselves:
				// nothing may be remembered between calls, whatever it is keyed by
				g0, o0 := mapParams(m)
				g1, o1 := math.Nextafter(math.Nextafter(g0, 2), 2), math.Nextafter(o0, math.Inf(1))
				for _, fk := range []byte{'G', 'I', 'C'} {
					for _, fp := range [][2]float64{{g0, o0}, {g0, o0 + 1}, {g0, o1}, {g1, o0}, {g1, o1}} {
						if fk == c.Kind && fp[0] == g0 && fp[1] == o0 {
							continue
						}
						fs := MapSpec{Kind: fk, Gamma: fp[0], Offset: fp[1]}
						f := fs.New()
						res.Evaluations++
						bb := b
						if fl, err := enc.DecodeFlag(&bb); err == nil {
							mapping.Decode(&bb, fl)
						}
						var fb []byte
						f.Encode(&fb)
						if fl, err := enc.DecodeFlag(&fb); err == nil {
							if d, err := mapping.Decode(&fb, fl); err != nil {
								fail("C19.binary", "%s: decoding %s right after it failed: %v", c, fs, err)
							} else if diff := sameBehaviour(f, d, nprobe/4); diff != "" || !proto.Equal(d.ToProto(), f.ToProto()) || !d.Equals(f) || !f.Equals(d) {
								fail("C19.same-behaviour", "%s: the mapping %s, decoded right after it, does not come back as itself (%v): %s", c, fs, d.ToProto(), diff)
							}
						}
						mapping.FromProto(m.ToProto())
						if d, err := mapping.FromProto(f.ToProto()); err != nil {
							fail("C19.proto", "%s: FromProto of %s right after it failed: %v", c, fs, err)
						} else if diff := sameBehaviour(f, d, nprobe/4); diff != "" || !proto.Equal(d.ToProto(), f.ToProto()) || !d.Equals(f) || !f.Equals(d) {
							fail("C19.same-behaviour", "%s: the mapping %s, rebuilt from its message right after it, does not come back as itself (%v): %s", c, fs, d.ToProto(), diff)
						}
						if fk != c.Kind && (m.Equals(f) || f.Equals(m)) {
							fail("C19.kinds-differ", "%s equals %s although the kinds differ", c, fs)
						}
					}
				}
				// near-twins (parameters a hair apart, on either side of whatever tolerance
				// the implementation uses): whether they are equal is its business, but the
				// answer must not depend on which one is asked
				for _, tw := range [][2]float64{{g0, o0 + 1e-13}, {g0, o0 - 1e-13}, {g0, o0 + 3e-12*math.Max(1, math.Abs(o0))}, {g0, o0 * (1 + 5e-13)},
					{g0 * (1 + 5e-13), o0}, {g0 * (1 + 3e-12), o0}, {g0 * (1 - 5e-13), o0 * (1 - 5e-13)}} {
					if !(tw[0] > 1) {
						continue
					}
					t := MapSpec{Kind: c.Kind, Gamma: tw[0], Offset: tw[1]}.New()
					res.Evaluations++
					if e1, e2 := m.Equals(t), t.Equals(m); e1 != e2 {
						fail("C19.symmetric", "%s.Equals(%s)=%v but the converse is %v", c, MapSpec{Kind: c.Kind, Gamma: tw[0], Offset: tw[1]}, e1, e2)
					}
				}
				// the message handed out belongs to the caller: changing or resetting it must
				// not show in the next conversion
				{
					p1 := m.ToProto()
					snap := proto.Clone(p1)
					p1.Gamma, p1.IndexOffset, p1.Interpolation = 99, -7, (p1.Interpolation+1)%4
					if p2 := m.ToProto(); !proto.Equal(p2, snap) {
						fail("C19.message-ownership", "%s: after the caller changed the message returned by ToProto, the next ToProto returns %v instead of %v", c, p2, snap)
					} else {
						p2.Reset()
						if p3 := m.ToProto(); !proto.Equal(p3, snap) {
							fail("C19.message-ownership", "%s: after the caller reset the message returned by ToProto, the next ToProto returns %v instead of %v", c, p3, snap)
						}
					}
					res.Evaluations++
				}
				// accuracies 0.11 % to 25 % apart, built the ordinary way: never equal
				if c.DefaultOf {
					for _, f := range []float64{1.0011, 1.01, 1.1, 1.25} {
						if !(c.Alpha*f < 1) {
							continue
						}
						near := MapSpec{Kind: c.Kind, Alpha: c.Alpha * f}.New()
						res.Evaluations++
						if fromAcc.Equals(near) || near.Equals(fromAcc) {
							fail("C19.accuracies-differ", "%s equals the mapping of the same kind built with accuracy %v (%.2f %% apart)", c, c.Alpha*f, (f-1)*100)
						}
					}
				}
				for form, r := range forms {
					if !m.Equals(r) || !r.Equals(m) {
						fail("C19.equal-after-round-trip", "%s: the mapping read back from its %s form is not equal to the original", c, form)
					}
					if d := sameBehaviour(m, r, nprobe); d != "" {
						fail("C19.same-behaviour", "%s: the mapping read back from its %s form behaves differently: %s", c, form, d)
					}
					res.Evaluations++
				}
				if c.DefaultOf {
					// the base and offset that correspond to an accuracy: base as reported, offset
					// 0 for the logarithmic and cubic kinds and 1/log2(base) for the linear one
					// (kept "for backward compatibility" by the constructor)
					dg, _ := mapParams(fromAcc)
					doff := 0.0
					if c.Kind == 'I' {
						doff = 1 / math.Log2(dg)
					}
					if fb := (MapSpec{Kind: c.Kind, Gamma: dg, Offset: doff}).New(); !fb.Equals(fromAcc) || !fromAcc.Equals(fb) {
						fail("C19.accuracy-vs-base", "%s: built from the accuracy it is not equal to the mapping built from base %v and offset %v", c, dg, doff)
					}
					if !m.Equals(fromAcc) || !fromAcc.Equals(m) {
						fail("C19.accuracy-vs-base", "%s: built from the accuracy and from the corresponding base and offset are not equal", c)
					}
					if d := sameBehaviour(m, fromAcc, nprobe); d != "" {
						fail("C19.accuracy-vs-base", "%s: built from the accuracy and from base/offset behave differently: %s", c, d)
					}
				}
				// equality laws against every mapping of the grid
				for j, o := range grid {
					other := built[j]
					e1, e2 := m.Equals(other), other.Equals(m)
					res.Evaluations++
					if e1 != e2 {
						fail("C19.symmetric", "%s.Equals(%s)=%v but the converse is %v", c, o, e1, e2)
					}
					if i == j && !e1 {
						fail("C19.reflexive", "%s is not equal to a mapping built with the same parameters", c)
					}
					if e1 && c.Kind != o.Kind {
						fail("C19.kinds-differ", "%s equals %s although the kinds differ", c, o)
					}
					if e1 && c.Kind == o.Kind && math.Abs(c.Alpha-o.Alpha) >= 1e-3*math.Min(c.Alpha, o.Alpha) {
						fail("C19.accuracies-differ", "%s equals %s although the accuracies differ by 0.1%% or more", c, o)
					}
					if e1 && i != j {
						// equality gates merging: equal mappings must index alike
						if d := sameBehaviour(m, other, 50); d != "" {
							fail("C19.equal-implies-same-index", "%s equals %s but they map differently: %s", c, o, d)
						}
					}
				}
				if len(res.Samples) < 2 {
					res.Samples = append(res.Samples, c.String())
				}
			}
			res.Distinct = res.Evaluations
			res.WallS = time.Since(start).Seconds()
			return res
		}
		out = append(out, mc.Shard{Name: name, Weight: 1, Run: run, Replay: func(string, []string) ([]mc.Fail, error) {
			r := run(time.Time{})
			var fails []mc.Fail
			for _, v := range r.Violations {
				fails = append(fails, mc.Fail{Clause: v.Clause, Detail: v.Detail})
			}
			return fails, nil
		}})
	}
	return out
}

func init() {
	mc.Register(&mc.Property{
		ID: "C03", Level: "exploration",
		Rule:        "exhaustive enumeration of a finite lattice per mapping (3 kinds x alphas x 13 index offsets, every mapping rebuilt from its base and offset as decoders do): EVERY bin between Index(min) and Index(max) probed at its lower bound +-2 ulps, at +-1e-9 relative, and at the exact float where Index steps up to it (bisection on the bit pattern) +-2 ulps; every binade boundary +-2 ulps; both range ends and their inward neighbours; the full lattice of floats with a T-bit significand in range. Clauses at every point: |Value(Index(v))-v| <= alpha*v + allowance; Index non-decreasing along the enumeration; LowerBound(Index(v)) <= v <= LowerBound(Index(v)+1) up to the allowance; the index fits in int32; RelativeAccuracy() equals the configured alpha within 2^-49. evaluations = distinct_nontrivial = number of probe points inside the indexable range",
		Assumptions: []string{"rounding allowance eps(v) = 2^-48 + 2^-49 (|ln v| + |offset| ln gamma), relative (DESIGN.md section 5); floats strictly between enumerated points are not probed"},
		Shards:      c03Shards,
		ShardBudget: budget(240*time.Second, 14*time.Minute),
	})
	mc.Register(&mc.Property{
		ID: "C19", Level: "exploration",
		Rule:        "exhaustive over a grid of 351 mappings (3 kinds x 13 accuracies from 1e-6 to 0.99 x 9 index offsets, built from base and offset): each is sent through the binary form, the protobuf message and the streaming protobuf writer and read back; the result must be Equals both ways and behave identically (Index on a probe lattice across the range, Value and LowerBound bit for bit, range, reported accuracy); accuracy-built and base-built mappings must be equal; each is followed by 14 mappings sharing some but not all of (kind, base, offset) with it, read back right after it, which must come back as themselves, and mappings of another kind with the same base and offset must not be equal to it; ALL 351^2 ordered pairs are checked for reflexivity, symmetry, inequality across kinds and across accuracies 0.1% or more apart, and 'equal implies same indexes'",
		Assumptions: []string{"behavioural identity is probed on a finite lattice (400 points quick, 2000 thorough) across the indexable range"},
		Shards:      c19Shards,
		ShardBudget: budget(240*time.Second, 14*time.Minute),
	})
}
