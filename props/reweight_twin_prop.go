package props

import (
	"fmt"
	"math"
	"regexp"
	"strconv"
	"strings"
	"time"

	"github.com/DataDog/sketches-go/ddsketch"
	"github.com/DataDog/sketches-go/ddsketch/store"

	"verif/mc"
)

// C16, literally: "reweighting leaves the sketch with exactly the content of a
// sketch to which the same values had been added with their weights multiplied
// by w". Every sequence of weighted additions (weights that are NOT dyadic, so
// that running totals round) is replayed twice on each store kind - once followed
// by Reweight(w), once with every weight multiplied by the dyadic w (an exact
// operation) - and the two objects are compared observer for observer, totals
// included. The twin runs the same code, so an implementation that computes its
// total in another order passes as long as it does so consistently.

type c16Add struct {
	idx int
	w   float64
}

func c16TwinAlphabet() []c16Add {
	var out []c16Add
	for _, i := range []int{2, 0, 1, -1, 33} { // 33: another page, and beyond a limit of 3
		for _, w := range []float64{0.1, 0.3, 0.7, 3} { // none of them becomes 1 under the factors below
			out = append(out, c16Add{i, w})
		}
	}
	return out
}

func c16TwinShards(tier string) []mc.Shard {
	kinds := []Kind{{K: 'D'}, {K: 'S'}, {K: 'P'}, {K: 'L', N: 3}, {K: 'H', N: 3}}
	factors := []float64{0.5, 2, 4, 0.0009765625}
	depth := 3
	if tier == "thorough" {
		depth = 4
	}
	var shards []mc.Shard
	for _, k := range kinds {
		k := k
		name := fmt.Sprintf("C16/twin-scaled-input/%s", k)
		run := func(deadline time.Time) *mc.Result {
			start := time.Now()
			res := &mc.Result{Scenario: name, Property: "C16", Exhaustive: true}
			if k.K == 'S' && !mc.MapOrderControlled {
				// the sparse store sums its total in map order: without a controlled order the
				// last bits of the two totals are not comparable
				res.WallS = time.Since(start).Seconds()
				return res
			}
			alpha := c16TwinAlphabet()
			distinct := map[string]struct{}{}
			fail := func(clause, hist, detail string) {
				if len(res.Violations) < 4 {
					res.Violations = append(res.Violations, mc.Violation{Property: "C16", Clause: clause, Scenario: name, Seed: "additions", History: []string{hist}, Detail: hist + ": " + detail})
				}
			}
			seq := make([]int, 0, depth)
			var rec func()
			rec = func() {
				if len(seq) > 0 {
					if time.Now().After(deadline) {
						res.Exhaustive = false
						return
					}
					var hs []string
					for _, j := range seq {
						hs = append(hs, fmt.Sprintf("AddWithCount(%d, %v)", alpha[j].idx, alpha[j].w))
					}
					hist := strings.Join(hs, "; ")
					for _, f := range factors {
						res.Evaluations++
						mc.Progress(func() string { return fmt.Sprintf("%s store: %s; Reweight(%v)", k, hist, f) })
						a, b := k.New(), k.New()
						var total float64
						for _, j := range seq {
							a.AddWithCount(alpha[j].idx, alpha[j].w)
							b.AddWithCount(alpha[j].idx, alpha[j].w*f)
							total += alpha[j].w * f
						}
						if err := a.Reweight(f); err != nil {
							fail("C16.twin", hist, fmt.Sprintf("Reweight(%v) refused: %v", f, err))
							continue
						}
						ranks := []float64{0, total / 3, total / 2, total - 0.05, total}
						oa, ob := ObserveStore(a, ranks), ObserveStore(b, ranks)
						if oa != ob {
							fail("C16.twin", hist, fmt.Sprintf("%s store after Reweight(%v) differs from a store that received the weights multiplied by %v\n  reweighted: %s\n  twin:       %s", k, f, f, oa, ob))
						}
						distinct[ob] = struct{}{}
						// the same through a sketch (positive and negative side, zero bucket)
						qa := ddsketch.NewDDSketch(MapSpec{Kind: 'G', Alpha: 0.1}.New(), k.New(), k.New())
						qb := ddsketch.NewDDSketch(MapSpec{Kind: 'G', Alpha: 0.1}.New(), k.New(), k.New())
						m := qa.IndexMapping
						for n, j := range seq {
							v := m.Value(alpha[j].idx)
							if n%2 == 1 {
								v = -v
							}
							must(qa.AddWithCount(v, alpha[j].w), "add")
							must(qb.AddWithCount(v, alpha[j].w*f), "add")
						}
						must(qa.AddWithCount(0, 0.3), "add zero")
						must(qb.AddWithCount(0, 0.3*f), "add zero")
						if err := qa.Reweight(f); err != nil {
							fail("C16.twin", hist, fmt.Sprintf("sketch Reweight(%v) refused: %v", f, err))
							continue
						}
						sa, sb := c16SketchObs(qa), c16SketchObs(qb)
						if sa != sb {
							fail("C16.twin", hist, fmt.Sprintf("sketch on %s stores (odd additions negated, zero weight 0.3) after Reweight(%v) differs from a sketch that received the weights multiplied by %v\n  reweighted: %s\n  twin:       %s", k, f, f, sa, sb))
						}
					}
				}
				if len(seq) == depth {
					return
				}
				for j := range alpha {
					seq = append(seq, j)
					rec()
					seq = seq[:len(seq)-1]
				}
			}
			rec()
			res.Distinct = int64(len(distinct))
			res.Samples = []string{fmt.Sprintf("%s: all sequences of <= %d additions over %d (index, weight) pairs x factors %v", name, depth, len(alpha), factors)}
			mc.FlushSide(res)
			res.WallS = time.Since(start).Seconds()
			return res
		}
		shards = append(shards, mc.Shard{Name: name, Weight: 50, Run: run, Replay: func(string, []string) ([]mc.Fail, error) {
			r := run(time.Now().Add(20 * time.Minute))
			var fails []mc.Fail
			for _, v := range r.Violations {
				fails = append(fails, mc.Fail{Clause: v.Clause, Detail: v.Detail})
			}
			return fails, nil
		}})
	}
	return shards
}

func c16SketchObs(q *ddsketch.DDSketch) string {
	var sb strings.Builder
	fmt.Fprintf(&sb, "count=%v zero=%v", q.GetCount(), q.GetZeroCount())
	for _, st := range []store.Store{q.GetPositiveValueStore(), q.GetNegativeValueStore()} {
		t := st.TotalCount()
		sb.WriteString(" | " + ObserveStore(st, []float64{0, t / 2, t}))
	}
	for _, p := range []float64{0, 0.25, 0.5, 0.75, 1} {
		v, err := q.GetValueAtQuantile(p)
		if err != nil || math.IsNaN(v) {
			fmt.Fprintf(&sb, " q%v=err", p)
		} else {
			fmt.Fprintf(&sb, " q%v=%v", p, v)
		}
	}
	return sb.String()
}

// C14 with weights that are not dyadic: a copy answers every query like its
// original, to the last bit (running totals and compensated sums round, so a copy
// that recomputes instead of copying them shows only here), and stays so after
// the original goes on.
func c14NonDyadicCopyShards(tier string) []mc.Shard {
	kinds := []Kind{{K: 'D'}, {K: 'S'}, {K: 'P'}, {K: 'L', N: 3}, {K: 'H', N: 3}}
	depth := 3
	if tier == "thorough" {
		depth = 4
	}
	var shards []mc.Shard
	for _, k := range kinds {
		k := k
		name := fmt.Sprintf("C14/copies-of-rounded-totals/%s", k)
		run := func(deadline time.Time) *mc.Result {
			start := time.Now()
			res := &mc.Result{Scenario: name, Property: "C14", Exhaustive: true}
			if k.K == 'S' && !mc.MapOrderControlled {
				// the sparse store sums its total in map order, which then differs from one
				// call to the next: last bits are not comparable
				res.WallS = time.Since(start).Seconds()
				return res
			}
			alpha := c16TwinAlphabet()
			distinct := map[string]struct{}{}
			fail := func(hist, detail string) {
				if len(res.Violations) < 4 {
					res.Violations = append(res.Violations, mc.Violation{Property: "C14", Clause: "C14.copy-equals-original", Scenario: name, Seed: "additions", History: []string{hist}, Detail: hist + ": " + detail})
				}
			}
			seq := make([]int, 0, depth)
			var rec func()
			rec = func() {
				if len(seq) > 0 {
					if time.Now().After(deadline) {
						res.Exhaustive = false
						return
					}
					var hs []string
					for _, j := range seq {
						hs = append(hs, fmt.Sprintf("AddWithCount(%d, %v)", alpha[j].idx, alpha[j].w))
					}
					hist := strings.Join(hs, "; ")
					res.Evaluations++
					mc.Progress(func() string { return fmt.Sprintf("%s store: %s; Copy", k, hist) })
					a := k.New()
					var total float64
					for _, j := range seq {
						a.AddWithCount(alpha[j].idx, alpha[j].w)
						total += alpha[j].w
					}
					ranks := []float64{0, total / 3, total / 2, total}
					c := a.Copy()
					oa, oc := ObserveStore(a, ranks), ObserveStore(c, ranks)
					if oa != oc {
						fail(hist, fmt.Sprintf("the copy of a %s store differs from its original\n  original: %s\n  copy:     %s", k, oa, oc))
					}
					a.AddWithCount(1, 0.7)
					if oc2 := ObserveStore(c, ranks); oc2 != oc {
						fail(hist, fmt.Sprintf("the copy of a %s store changed when the original received AddWithCount(1, 0.7)\n  before: %s\n  after:  %s", k, oc, oc2))
					}
					distinct[oa] = struct{}{}
					for _, exact := range []bool{false, true} {
						sl := NewSkSlot(MapSpec{Kind: 'G', Alpha: 0.1}.New(), k, exact)
						m := sl.Mapping()
						for n, j := range seq {
							v := m.Value(alpha[j].idx)
							if n%2 == 1 {
								v = -v
							}
							must(sl.Q().AddWithCount(v, alpha[j].w), "add")
						}
						must(sl.Q().AddWithCount(0, 0.3), "add zero")
						cp := sl.CopyOf()
						sa, sc := ObserveSketch(sl.Q()), ObserveSketch(cp.Q())
						if sa != sc {
							fail(hist, fmt.Sprintf("the copy of a sketch on %s stores (exact=%v; odd additions negated, zero weight 0.3) differs from its original\n  original: %s\n  copy:     %s", k, exact, sa, sc))
						}
						must(sl.Q().AddWithCount(m.Value(1), 0.7), "add")
						if sc2 := ObserveSketch(cp.Q()); sc2 != sc {
							fail(hist, fmt.Sprintf("the copy of a sketch on %s stores (exact=%v) changed when the original received an addition\n  before: %s\n  after:  %s", k, exact, sc, sc2))
						}
					}
				}
				if len(seq) == depth {
					return
				}
				for j := range alpha {
					seq = append(seq, j)
					rec()
					seq = seq[:len(seq)-1]
				}
			}
			rec()
			res.Distinct = int64(len(distinct))
			res.Samples = []string{fmt.Sprintf("%s: all sequences of <= %d additions over %d (index, weight) pairs, copied as a store and inside both sketch variants", name, depth, len(alpha))}
			mc.FlushSide(res)
			res.WallS = time.Since(start).Seconds()
			return res
		}
		shards = append(shards, mc.Shard{Name: name, Weight: 50, Run: run, Replay: func(string, []string) ([]mc.Fail, error) {
			r := run(time.Now().Add(20 * time.Minute))
			var fails []mc.Fail
			for _, v := range r.Violations {
				fails = append(fails, mc.Fail{Clause: v.Clause, Detail: v.Detail})
			}
			return fails, nil
		}})
	}
	return shards
}

// countLastBitsOnly is the history predicate of the known finding of C14: the two
// observations quoted in the violation have the same shape (same bins, same
// extremes, same emptiness) and every number in them agrees to within 4 ulps,
// at least one differing in its last bits; quantile answers are left out, being
// computed from the total (a rank that sits exactly on a cumulative boundary moves
// to the neighbouring bin). It names exactly this failure: the buffered paginated
// store keeps unit entries aside and adds them to their page when it compacts, and
// computes its total as len(buffer) + sum(pages) on every call; when a read
// compacts the buffer, the same additions happen in another order.
var obsQuant = regexp.MustCompile(`(q|batch)=\[[^\]]*\]`)

func countLastBitsOnly(v mc.Violation) bool {
	var obs [][]string
	for _, line := range strings.Split(v.Detail, "\n") {
		i := strings.Index(line, "count=")
		if i < 0 {
			continue
		}
		obs = append(obs, strings.Fields(obsQuant.ReplaceAllString(line[i:], "$1=*")))
	}
	if len(obs) != 2 || len(obs[0]) != len(obs[1]) {
		return false
	}
	differs := false
	for i := range obs[0] {
		a, b := obs[0][i], obs[1][i]
		if a == b {
			continue
		}
		ka, kb := strings.LastIndexAny(a, "=:{"), strings.LastIndexAny(b, "=:{")
		if ka < 0 || ka != kb || a[:ka] != b[:kb] {
			return false
		}
		x, e1 := strconv.ParseFloat(strings.TrimRight(a[ka+1:], "}"), 64)
		y, e2 := strconv.ParseFloat(strings.TrimRight(b[kb+1:], "}"), 64)
		if e1 != nil || e2 != nil || math.Abs(x-y) > 4*math.Ldexp(math.Max(math.Abs(x), math.Abs(y)), -52) {
			return false
		}
		differs = true
	}
	return differs
}

// C06 for sketches with exact statistics whose running total has rounded: the
// weights are powers of two (they survive the codec's +1/-1 transform) but 2^53
// apart, so the count kept by insertion order is not the index-order sum of the
// bins. Encoding such a sketch and decoding it must succeed and give back the
// same bins and the same exact statistics.
func c06RoundedTotalShards(tier string) []mc.Shard {
	name := "C06/exact-variant/rounded-totals"
	run := func(deadline time.Time) *mc.Result {
		start := time.Now()
		res := &mc.Result{Scenario: name, Property: "C06", Exhaustive: true}
		type add struct {
			idx int
			w   float64
		}
		var alpha []add
		for _, i := range []int{3, 0, 40} {
			for _, w := range []float64{1 << 25, math.Ldexp(1, -28), 1, 3} {
				alpha = append(alpha, add{i, w})
			}
		}
		depth := 3
		if tier == "thorough" {
			depth = 4
		}
		distinct := map[string]struct{}{}
		fail := func(hist, detail string) {
			if len(res.Violations) < 4 {
				res.Violations = append(res.Violations, mc.Violation{Property: "C06", Clause: "C06.same-answers", Scenario: name, Seed: "additions", History: []string{hist}, Detail: hist + ": " + detail})
			}
		}
		kinds := []Kind{{K: 'D'}, {K: 'S'}, {K: 'P'}}
		seq := make([]int, 0, depth)
		var rec func()
		rec = func() {
			if len(seq) > 0 {
				if time.Now().After(deadline) {
					res.Exhaustive = false
					return
				}
				var hs []string
				for _, j := range seq {
					hs = append(hs, fmt.Sprintf("AddWithCount(Value(%d), %v)", alpha[j].idx, alpha[j].w))
				}
				hist := strings.Join(hs, "; ")
				for ki, k := range kinds {
					res.Evaluations++
					mc.Progress(func() string { return fmt.Sprintf("exact-variant sketch on %s stores: %s; encode; decode", k, hist) })
					src := NewSkSlot(MapSpec{Kind: 'G', Alpha: 0.1}.New(), k, true)
					m := src.Mapping()
					for _, j := range seq {
						must(src.Q().AddWithCount(m.Value(alpha[j].idx), alpha[j].w), "add")
					}
					var b []byte
					src.Q().Encode(&b, false)
					want := SketchContent(src.Q())
					distinct[want] = struct{}{}
					for _, tk := range []Kind{k, kinds[(ki+1)%len(kinds)]} {
						dec, err := DecodeSlot(b, tk, true, nil)
						if err != nil {
							fail(hist, fmt.Sprintf("the encoding of a sketch with exact statistics on %s stores was refused by its own decoder (%s stores): %v", k, tk, err))
							continue
						}
						if got := SketchContent(dec.Q()); got != want {
							fail(hist, fmt.Sprintf("decoded into %s stores the bins differ\n  got:  %s\n  want: %s", tk, got, want))
						}
						c := src.E.GetCount()
						if (c+1)-1 == c && dec.E.GetCount() != c {
							fail(hist, fmt.Sprintf("decoded into %s stores the exact count is %v, encoded %v", tk, dec.E.GetCount(), c))
						}
						smin, _ := src.E.GetMinValue()
						smax, _ := src.E.GetMaxValue()
						dmin, _ := dec.E.GetMinValue()
						dmax, _ := dec.E.GetMaxValue()
						if smin != dmin || smax != dmax || src.E.GetSum() != dec.E.GetSum() {
							fail(hist, fmt.Sprintf("decoded into %s stores the exact min/max/sum are %v/%v/%v, encoded %v/%v/%v", tk, dmin, dmax, dec.E.GetSum(), smin, smax, src.E.GetSum()))
						}
					}
				}
			}
			if len(seq) == depth {
				return
			}
			for j := range alpha {
				seq = append(seq, j)
				rec()
				seq = seq[:len(seq)-1]
			}
		}
		rec()
		res.Distinct = int64(len(distinct))
		res.Samples = []string{fmt.Sprintf("%s: all sequences of <= %d additions over 3 values x weights {2^25, 2^-28, 1, 3}, 3 store kinds, decoded into 2 kinds", name, depth)}
		mc.FlushSide(res)
		res.WallS = time.Since(start).Seconds()
		return res
	}
	return []mc.Shard{{Name: name, Weight: 50, Run: run, Replay: func(string, []string) ([]mc.Fail, error) {
		r := run(time.Now().Add(20 * time.Minute))
		var fails []mc.Fail
		for _, v := range r.Violations {
			fails = append(fails, mc.Fail{Clause: v.Clause, Detail: v.Detail})
		}
		return fails, nil
	}}}
}
