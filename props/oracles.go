package props

import (
	"fmt"
	"math"
	"math/big"
	"sort"

	"github.com/DataDog/sketches-go/ddsketch/mapping"

	"verif/mc"
)

// mapParams reads gamma and offset through the mapping's public protobuf form.
func mapParams(m mapping.IndexMapping) (gamma, offset float64) {
	p := m.ToProto()
	return p.Gamma, p.IndexOffset
}

// relAllowance is the tolerance policy of DESIGN.md section 5: a relative
// allowance eps(v) = 2^-48 + 2^-49 (|ln v| + |offset| ln gamma) on top of alpha
// (16 ulps of the value plus 16 ulps of the log-domain quantities that log/exp
// and the index arithmetic perturb; the linearly interpolated mapping used 77%
// of a first version with 2^-50, hence 2^-49).
func relAllowance(m mapping.IndexMapping, v float64) float64 {
	gamma, offset := mapParams(m)
	v = math.Abs(v)
	l := 0.0
	if v > 0 {
		l = math.Abs(math.Log(v))
	}
	return math.Ldexp(1, -48) + math.Ldexp(1, -49)*(l+math.Abs(offset)*math.Log(gamma))
}

// accFrac returns how much of the allowed error |y-x| uses: <= 1 means y is
// within alpha (plus rounding allowance) of x. The allowed error is split so
// that the share of the rounding allowance used can be reported separately.
func accFrac(m mapping.IndexMapping, alpha, y, x float64) (frac, tolUse float64) {
	ax := math.Abs(x)
	d := math.Abs(y - x)
	if (y < 0) != (x < 0) && y != 0 && x != 0 {
		return math.Inf(1), math.Inf(1)
	}
	eps := relAllowance(m, x)
	allowed := alpha*ax + eps*ax
	if allowed == 0 {
		if d == 0 {
			return 0, 0
		}
		return math.Inf(1), math.Inf(1)
	}
	frac = d / allowed
	if d > alpha*ax {
		tolUse = (d - alpha*ax) / (eps * ax)
	}
	return
}

// zeroish: a value the sketch counts as 0 (strictly inside the smallest
// indexable magnitude) - and "either" when exactly on it (DESIGN C01 note).
func zeroClass(m mapping.IndexMapping, v float64) (isZero, either bool) {
	a := math.Abs(v)
	mn := m.MinIndexableValue()
	return a < mn, a == mn
}

// matchesValue: does answer y represent absorbed value x within alpha?
func matchesValue(m mapping.IndexMapping, alpha, y, x float64, key string) bool {
	isZero, either := zeroClass(m, x)
	if isZero {
		return y == 0
	}
	if either && y == 0 {
		return true
	}
	f, t := accFrac(m, alpha, y, x)
	if f <= 1 {
		mc.Allow(key, t)
	}
	return f <= 1
}

// exact floor and ceiling of q*(n) for float q and integer-valued n
func exactRanks(q float64, nm1 float64) (lo, hi int64) {
	r := new(big.Rat).SetFloat64(q)
	r.Mul(r, new(big.Rat).SetFloat64(nm1))
	num, den := r.Num(), r.Denom()
	fl := new(big.Int).Div(num, den) // Euclidean; r >= 0 here
	lo = fl.Int64()
	hi = lo
	if new(big.Int).Mul(fl, den).Cmp(num) != 0 {
		hi = lo + 1
	}
	return
}

// quantile probes for n unit values: every k/(n-1) and both float neighbours,
// mid-points, the extremes of [0,1]
func quantilesFor(n int) []float64 {
	qs := []float64{0, 1, 5e-324, 1 - math.Ldexp(1, -53)}
	if n > 1 {
		for k := 0; k <= n-1; k++ {
			q := float64(k) / float64(n-1)
			qs = append(qs, q)
			if q > 0 {
				qs = append(qs, math.Nextafter(q, 0))
			}
			if q < 1 {
				qs = append(qs, math.Nextafter(q, 1))
			}
			if k < n-1 {
				qs = append(qs, (float64(k)+0.5)/float64(n-1))
			}
		}
	} else {
		qs = append(qs, 0.5)
	}
	sort.Float64s(qs)
	out := qs[:0]
	for i, q := range qs {
		if i == 0 || q != qs[i-1] {
			out = append(out, q)
		}
	}
	return out
}

func sortedValues(ent []Entry) []float64 {
	vs := make([]float64, 0, len(ent))
	for _, e := range ent {
		vs = append(vs, e.V)
	}
	sort.Float64s(vs)
	return vs
}

// checkC01: unit-weight inputs, every probe quantile is within alpha of the
// order statistic at floor or ceil of q(n-1).
func checkC01() func(w *SketchWorld, slot int) []mc.Fail {
	return func(w *SketchWorld, slot int) (fails []mc.Fail) {
		ent := w.M[slot].Ent
		n := len(ent)
		q := w.S[slot].Q()
		wm, ws := w.M[slot].Map, w.M[slot].Spec
		alpha := specAlpha(ws, wm)
		if ra := q.RelativeAccuracy(); math.Abs(ra-alpha) > math.Ldexp(1, -49) {
			fails = append(fails, mc.Fail{Clause: "C01.reported-accuracy", Detail: fmt.Sprintf("RelativeAccuracy()=%v but the sketch was configured with %v", ra, alpha)})
		}
		if n == 0 {
			return
		}
		xs := sortedValues(ent)
		qs := quantilesFor(n)
		batch, berr := q.GetValuesAtQuantiles(qs)
		dbatch, derr := descendingBatch(q, qs)
		for qi, p := range qs {
			y, err := q.GetValueAtQuantile(p)
			if err != nil {
				fails = append(fails, mc.Fail{Clause: "C01.accuracy", Detail: fmt.Sprintf("q=%v refused on a non-empty sketch: %v", p, err)})
				return
			}
			if berr != nil || math.Float64bits(batch[qi]) != math.Float64bits(y) {
				fails = append(fails, mc.Fail{Clause: "C01.batch", Detail: fmt.Sprintf("GetValuesAtQuantiles differs from GetValueAtQuantile at q=%v: %v vs %v (err %v)", p, batch, y, berr)})
				return
			}
			if derr != nil || math.Float64bits(dbatch[qi]) != math.Float64bits(y) {
				fails = append(fails, mc.Fail{Clause: "C01.batch", Detail: fmt.Sprintf("GetValuesAtQuantiles asked in descending order differs from GetValueAtQuantile at q=%v: %v vs %v (err %v)", p, dbatch, y, derr)})
				return
			}
			lo, hi := exactRanks(p, float64(n-1))
			rt := p * float64(n-1)
			cands := []int64{lo, hi, int64(math.Floor(rt)), int64(math.Ceil(rt))}
			ok := false
			for _, k := range cands {
				if k < 0 || k >= int64(n) {
					continue
				}
				if matchesValue(wm, alpha, y, xs[k], "C01 value accuracy") {
					ok = true
					break
				}
			}
			if !ok {
				fails = append(fails, mc.Fail{Clause: "C01.accuracy", Detail: fmt.Sprintf("%s, %s store, input %v: q=%v answered %v, not within alpha=%v of the order statistics at ranks %d..%d (%v, %v)", ws, w.S[slot].Store, xs, p, y, alpha, lo, hi, xs[lo], xs[hi])})
				return
			}
			if p == 0 || p == 1 {
				x := xs[0]
				if p == 1 {
					x = xs[n-1]
				}
				want, alt := binValue(wm, x)
				if y != want && y != alt && !sameBin(wm, y, want) {
					fails = append(fails, mc.Fail{Clause: "C01.extreme-bin", Detail: fmt.Sprintf("%s, %s store, input %v: q=%v answered %v, the bin of the true extreme %v is %v", ws, w.S[slot].Store, xs, p, y, x, want)})
					return
				}
			}
		}
		return
	}
}

// descendingBatch asks the quantiles in descending order in one call and returns
// the answers re-ordered to match qs (a batch may be given in any order).
func descendingBatch(q Sketch, qs []float64) ([]float64, error) {
	rev := make([]float64, len(qs))
	for i, p := range qs {
		rev[len(qs)-1-i] = p
	}
	out, err := q.GetValuesAtQuantiles(rev)
	if err != nil || len(out) != len(qs) {
		return nil, fmt.Errorf("descending batch: %d answers, err=%v", len(out), err)
	}
	for i, j := 0, len(out)-1; i < j; i, j = i+1, j-1 {
		out[i], out[j] = out[j], out[i]
	}
	return out, nil
}

// sameBin: y lies in the bin whose representative is rep (same sign, same
// index; 0 only with 0). The properties say "the bin of", not "the
// representative of the bin of".
func sameBin(m mapping.IndexMapping, y, rep float64) bool {
	if y == rep {
		return true
	}
	if y == 0 || rep == 0 || (y < 0) != (rep < 0) {
		return false
	}
	ay, ar := math.Abs(y), math.Abs(rep)
	if ay < m.MinIndexableValue() || ay > m.MaxIndexableValue() {
		return false
	}
	return m.Index(ay) == m.Index(ar)
}

// binValue: the representative of the bin holding x (0 for the zero bucket);
// alt is the alternative reading when |x| is exactly the smallest indexable.
func binValue(m mapping.IndexMapping, x float64) (want, alt float64) {
	isZero, either := zeroClass(m, x)
	if isZero {
		return 0, 0
	}
	v := m.Value(m.Index(math.Abs(x)))
	if x < 0 {
		v = -v
	}
	if either {
		return v, 0
	}
	return v, v
}

func specAlpha(s MapSpec, m mapping.IndexMapping) float64 {
	if s.Gamma == 0 {
		return s.Alpha
	}
	return m.RelativeAccuracy()
}

// checkC12: coherence of the summary queries on any state.
func checkC12() func(w *SketchWorld, slot int) []mc.Fail {
	return func(w *SketchWorld, slot int) (fails []mc.Fail) {
		fail := func(clause, format string, a ...any) {
			fails = append(fails, mc.Fail{Clause: clause, Detail: fmt.Sprintf("%s, %s store, exact=%v, absorbed %v: ", w.M[slot].Spec, w.S[slot].Store, w.S[slot].Exact, w.M[slot].Ent) + fmt.Sprintf(format, a...)})
		}
		sl := w.S[slot]
		q := sl.Q()
		md := w.M[slot]
		wm, ws := md.Map, md.Spec
		alpha := specAlpha(ws, wm)
		var total float64
		for _, e := range md.Ent {
			total += e.W
		}
		count := q.GetCount()
		parts := q.GetZeroCount() + q.GetPositiveValueStore().TotalCount() + q.GetNegativeValueStore().TotalCount()
		if count != total || parts != total {
			fail("C12.count", "GetCount()=%v, zero+positive+negative=%v, absorbed weight %v", count, parts, total)
		}
		if q.IsEmpty() != (total == 0) {
			fail("C12.empty", "IsEmpty()=%v with absorbed weight %v", q.IsEmpty(), total)
		}
		mn, errMin := q.GetMinValue()
		mx, errMax := q.GetMaxValue()
		if total == 0 {
			if errMin == nil || errMax == nil {
				fail("C12.extremes", "min/max of an empty sketch did not return an error (%v, %v)", mn, mx)
			}
			if _, err := q.GetValueAtQuantile(0.5); err == nil {
				fail("C12.empty", "quantile of an empty sketch did not return an error")
			}
			return
		}
		if errMin != nil || errMax != nil {
			fail("C12.extremes", "min/max refused on a non-empty sketch: %v %v", errMin, errMax)
			return
		}
		xs := sortedValues(md.Ent)
		bounded := sl.Store.N > 0 || md.Pos.Folded || md.Neg.Folded
		if !sl.Exact {
			// expected representative from the (folded) reference content
			var wantMin, wantMax float64
			switch {
			case !md.Neg.Empty():
				k, _ := md.Neg.Max()
				wantMin = -wm.Value(k)
			case md.Zero > 0:
				wantMin = 0
			default:
				k, _ := md.Pos.Min()
				wantMin = wm.Value(k)
			}
			switch {
			case !md.Pos.Empty():
				k, _ := md.Pos.Max()
				wantMax = wm.Value(k)
			case md.Zero > 0:
				wantMax = 0
			default:
				k, _ := md.Neg.Min()
				wantMax = -wm.Value(k)
			}
			if !sameBin(wm, mn, wantMin) || !sameBin(wm, mx, wantMax) {
				fail("C12.extremes", "min=%v max=%v, the bins of the (clamped) extremes are those of %v and %v", mn, mx, wantMin, wantMax)
			}
			if !bounded {
				if !matchesValue(wm, alpha, mn, xs[0], "C12 extreme accuracy") || !matchesValue(wm, alpha, mx, xs[len(xs)-1], "C12 extreme accuracy") {
					fail("C12.extremes", "min=%v max=%v are not within alpha=%v of the true extremes %v and %v", mn, mx, alpha, xs[0], xs[len(xs)-1])
				}
			}
		}
		if sl.Exact && !bounded {
			// the exact variant reports the exact extremes (C10); here only what C12
			// states: within alpha of the true extremes of what was absorbed
			tmin, tmax := math.Inf(1), math.Inf(-1)
			for _, e := range md.Ent {
				if e.W > 0 {
					tmin, tmax = math.Min(tmin, e.V), math.Max(tmax, e.V)
				}
			}
			if !(mn == tmin || matchesValue(wm, alpha, mn, tmin, "C12 extreme accuracy")) || !(mx == tmax || matchesValue(wm, alpha, mx, tmax, "C12 extreme accuracy")) {
				fail("C12.extremes", "min=%v max=%v are not within alpha=%v of the true extremes %v and %v", mn, mx, alpha, tmin, tmax)
			}
		}
		// quantiles: monotone, inside [min,max], batch == singles
		qs := []float64{0, 5e-324, 0.01, 0.1, 0.25, 1.0 / 3, 0.5, 2.0 / 3, 0.75, 0.9, 0.99, 1 - math.Ldexp(1, -53), 1}
		batch, berr := q.GetValuesAtQuantiles(qs)
		dbatch, derr := descendingBatch(q, qs)
		prev := math.Inf(-1)
		for i, p := range qs {
			y, err := q.GetValueAtQuantile(p)
			if err != nil {
				fail("C12.quantiles", "q=%v refused on a non-empty sketch: %v", p, err)
				return
			}
			if berr != nil || math.Float64bits(batch[i]) != math.Float64bits(y) {
				fail("C12.batch", "batch answer at q=%v is %v, single answer %v (err=%v)", p, batch, y, berr)
				return
			}
			if derr != nil || math.Float64bits(dbatch[i]) != math.Float64bits(y) {
				fail("C12.batch", "batch asked in descending order answers %v at q=%v, single answer %v (err=%v)", dbatch, p, y, derr)
				return
			}
			if y < prev {
				fail("C12.monotone", "answer %v at q=%v is below the answer %v at a lower q", y, p, prev)
			}
			if y < mn || y > mx {
				fail("C12.within-extremes", "answer %v at q=%v is outside [min=%v, max=%v]", y, p, mn, mx)
			}
			prev = y
		}
		// approximate sum for same-signed data held in bins (plain variant, unbounded stores)
		if !sl.Exact && !bounded {
			sameSign, tiny := true, false
			var exact, absSum big.Float
			for _, e := range md.Ent {
				if (e.V < 0) != (md.Ent[0].V < 0) {
					sameSign = false
				}
				if z, _ := zeroClass(wm, e.V); z && e.V != 0 {
					tiny = true
				}
				p := new(big.Float).Mul(big.NewFloat(e.V), big.NewFloat(e.W))
				exact.Add(&exact, p)
				absSum.Add(&absSum, new(big.Float).Abs(p))
			}
			if sameSign && !tiny {
				t, _ := exact.Float64()
				s := q.GetSum()
				lim := alpha * math.Abs(t) * (1 + math.Ldexp(1, -40))
				lim += relAllowance(wm, t) * math.Abs(t)
				if math.Abs(s-t) > lim {
					fail("C12.sum", "GetSum()=%v, true sum %v, error %v exceeds alpha*|sum|=%v", s, t, math.Abs(s-t), alpha*math.Abs(t))
				}
			}
		}
		// iteration: each non-empty bin once, positive weight, sums to the count; stops when asked
		var each []vc
		q.ForEach(func(v, c float64) bool { each = append(each, vc{v, c}); return false })
		var sum float64
		seen := map[float64]bool{}
		for _, e := range each {
			if !(e.c > 0) {
				fail("C12.foreach", "ForEach yielded value %v with non-positive weight %v", e.v, e.c)
			}
			if seen[e.v] && e.v != 0 {
				fail("C12.foreach", "ForEach yielded value %v twice", e.v)
			}
			seen[e.v] = true
			sum += e.c
		}
		if sum != count {
			fail("C12.foreach", "ForEach weights sum to %v, count is %v", sum, count)
		}
		nb := 0
		if md.Zero > 0 {
			nb++
		}
		nb += len(md.Pos.M) + len(md.Neg.M)
		if len(each) != nb {
			fail("C12.foreach", "ForEach yielded %d bins, the content has %d non-empty bins", len(each), nb)
		}
		beforeStops := SketchContent(q)
		for j := 0; j < len(each); j++ {
			calls := 0
			q.ForEach(func(v, c float64) bool { calls++; return calls == j+1 })
			if calls != j+1 {
				fail("C12.foreach-stop", "ForEach was called %d times after the callback asked to stop at call %d", calls, j+1)
				break
			}
		}
		if after := SketchContent(q); after != beforeStops || q.GetCount() != count {
			fail("C12.foreach-stop", "iterations stopped early changed the sketch\n  before: %s count=%v\n  after:  %s count=%v", beforeStops, count, after, q.GetCount())
		}
		return
	}
}

// checkC02: every slot equals, bit for bit, a single sketch of the same store
// kind fed the slot's whole input one value at a time.
func checkC02(w *SketchWorld, slot int) (fails []mc.Fail) {
	sl := w.S[slot]
	twin := NewSkSlot(w.M[slot].Map, sl.Store, sl.Exact)
	for _, e := range w.M[slot].Ent {
		must(twin.Q().AddWithCount(e.V, e.W), "twin add refused")
	}
	got, want := ObserveSketch(sl.Q()), ObserveSketch(twin.Q())
	if got != want {
		fails = append(fails, mc.Fail{Clause: "C02.equals-single-sketch",
			Detail: fmt.Sprintf("slot %s (%s store, %s) differs from one sketch fed the whole input %v\n  merged: %s\n  single: %s", slotName(slot), sl.Store, w.M[slot].Spec, w.M[slot].Ent, got, want)})
	}
	return
}

// checkC05Sketch: on a sketch backed by collapsing stores, every quantile whose
// true order statistic lies in a retained bin keeps the accuracy guarantee.
func checkC05Sketch(w *SketchWorld, slot int) (fails []mc.Fail) {
	md := w.M[slot]
	sl := w.S[slot]
	if md.Approx {
		return
	}
	for _, e := range md.Ent {
		if e.W != 1 {
			return // the order-statistics oracle is for unit weights
		}
	}
	n := len(md.Ent)
	if n == 0 {
		return
	}
	q := sl.Q()
	alpha := specAlpha(md.Spec, md.Map)
	xs := sortedValues(md.Ent)
	retained := func(x float64) bool {
		if z, either := zeroClass(md.Map, x); z || either {
			return true
		}
		side := md.Pos
		if x < 0 {
			side = md.Neg
		}
		i := md.Map.Index(math.Abs(x))
		lo, ok1 := side.Min()
		hi, ok2 := side.Max()
		if !ok1 || !ok2 || side.Inherited {
			return false
		}
		if side.N == 0 {
			return !side.Folded
		}
		// strictly inside the edge: the edge bin itself also holds folded weight
		if side.Lowest {
			return i > lo || !side.Folded
		}
		return i < hi || !side.Folded
	}
	for _, p := range quantilesFor(n) {
		y, err := q.GetValueAtQuantile(p)
		if err != nil {
			fails = append(fails, mc.Fail{Clause: "C05.sketch-accuracy", Detail: fmt.Sprintf("q=%v refused on a non-empty sketch: %v", p, err)})
			return
		}
		lo, hi := exactRanks(p, float64(n-1))
		rt := p * float64(n-1)
		cands := []int64{lo, hi, int64(math.Floor(rt)), int64(math.Ceil(rt))}
		allRetained, ok := true, false
		for _, k := range cands {
			if k < 0 || k >= int64(n) {
				continue
			}
			if !retained(xs[k]) {
				allRetained = false
				continue
			}
			if matchesValue(md.Map, alpha, y, xs[k], "C05 value accuracy") {
				ok = true
			}
		}
		if allRetained && !ok {
			fails = append(fails, mc.Fail{Clause: "C05.sketch-accuracy", Detail: fmt.Sprintf("%s, %s stores, input %v: q=%v answered %v although the order statistics at ranks %d..%d (%v, %v) lie in retained bins", md.Spec, sl.Store, xs, p, y, lo, hi, xs[lo], xs[hi])})
			return
		}
	}
	return
}
