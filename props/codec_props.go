package props

import (
	"bytes"
	"fmt"
	"math"
	"runtime/debug"
	"sort"
	"strings"
	"time"

	"github.com/DataDog/sketches-go/ddsketch"
	"github.com/DataDog/sketches-go/ddsketch/mapping"
	"github.com/DataDog/sketches-go/ddsketch/pb/sketchpb"
	"github.com/DataDog/sketches-go/ddsketch/store"
	"google.golang.org/protobuf/proto"

	"verif/mc"
	"verif/model"
)

var codecTargets = []Kind{{K: 'D'}, {K: 'S'}, {K: 'P'}, {K: 'L', N: 3}, {K: 'H', N: 3}}

// expectedContent: what a fresh sketch with stores of kind t holds after
// absorbing the given reference contents in order (folded if t is bounded).
func expectedContent(t Kind, ms ...*SkModel) string {
	e := NewSkModel(t, ms[0].Spec, ms[0].Map)
	for _, m := range ms {
		e.Pos.MergeFrom(m.Pos)
		e.Neg.MergeFrom(m.Neg)
		e.Zero += m.Zero
	}
	return e.Content()
}

// rebuild constructs a sketch of store kind t that absorbed the entries of a
// reference state (used as a non-empty receiver).
func rebuild(md *SkModel, t Kind, exact bool) *SkSlot {
	s := NewSkSlot(md.Map, t, exact)
	for _, e := range md.Ent {
		must(s.Q().AddWithCount(e.V, e.W), "rebuilding a receiver")
	}
	return s
}

func encodeOf(q Sketch, omit bool) []byte {
	var b []byte
	q.Encode(&b, omit)
	return b
}

// encodingsUnderOrders: the encodings of q under the default map order and
// under each order deviation (they differ only for sparse producers).
func encodingsUnderOrders(q Sketch, omit bool) [][]byte {
	out := [][]byte{encodeOf(q, omit)}
	if !mc.MapOrderControlled {
		return out
	}
	for _, ord := range mapOrders {
		SetMapOrder(ord.perm)
		e := encodeOf(q, omit)
		SetMapOrder(nil)
		dup := false
		for _, x := range out {
			if bytes.Equal(x, e) {
				dup = true
			}
		}
		if !dup {
			out = append(out, e)
		}
	}
	return out
}

func supplied(md *SkModel, omit bool) mapping.IndexMapping {
	if omit {
		return md.Map
	}
	return nil
}

// checkC06: the binary encoding round-trips into every store kind, composes
// with merging and concatenation, only appends, and is pure.
func checkC06(w *SketchWorld, slot int) (fails []mc.Fail) {
	sl, md := w.S[slot], w.M[slot]
	if md.Approx {
		return // weights that went through ChangeMapping need not survive the +1/-1 transform
	}
	q := sl.Q()
	where := fmt.Sprintf("%s, producer %s store, exact=%v, absorbed %v: ", md.Spec, sl.Store, sl.Exact, md.Ent)
	fail := func(clause, format string, a ...any) {
		fails = append(fails, mc.Fail{Clause: clause, Detail: where + fmt.Sprintf(format, a...)})
	}
	before := ObserveSketch(q)
	for _, omit := range []bool{false, true} {
		enc := encodeOf(q, omit)
		if after := ObserveSketch(q); after != before {
			fail("C06.encode-pure", "Encode changed the observable state\n  before: %s\n  after:  %s", before, after)
			return
		}
		// the bytes belong to the caller: overwriting them and reusing the buffer for
		// another encoding must not change what the sketch encodes next
		{
			scr := encodeOf(q, omit)
			for x := range scr {
				scr[x] = 0xff
			}
			scr = scr[:0]
			if len(w.S) > 1 {
				w.S[1-slot].Q().Encode(&scr, false)
			}
			if again := encodeOf(q, omit); !bytes.Equal(again, enc) {
				fail("C06.append-only", "encoded again after the caller overwrote and reused the first buffer, the bytes differ\n  first: % x\n  again: % x", enc, again)
				return
			}
		}
		// append-only into a caller buffer with spare capacity
		// (the spare capacity holds stale bytes, as in a recycled buffer)
		junk := make([]byte, 3+len(enc)+16)
		for i := range junk {
			junk[i] = 0xa5
		}
		junk = junk[:3]
		copy(junk, []byte{0xde, 0xad, 0x7f})
		buf := junk
		q.Encode(&buf, omit)
		if len(buf) < 3 || !bytes.Equal(buf[:3], []byte{0xde, 0xad, 0x7f}) {
			fail("C06.append-only", "Encode overwrote the caller's buffer prefix: % x", buf[:min(len(buf), 8)])
			return
		}
		enc2 := buf[3:]
		mc.Count("encodings", 1)
		all := append([][]byte{enc, enc2}, encodingsUnderOrders(q, omit)[1:]...)
		mc.Count("encodings_under_order_deviations", int64(len(all)-2))
		for _, t := range codecTargets {
			for n, e := range all {
				dec, err := DecodeSlot(e, t, sl.Exact, supplied(md, omit))
				if err != nil {
					fail("C06.round-trip", "decoding into %s stores (omitMapping=%v, encoding #%d % x) failed: %v", t, omit, n+1, e, err)
					return
				}
				if got, want := SketchContent(dec.Q()), expectedContent(t, md); got != want {
					fail("C06.round-trip", "decoded into %s stores (omitMapping=%v, encoding #%d % x)\n  got:  %s\n  want: %s", t, omit, n+1, e, got, want)
					return
				}
				if !dec.Mapping().Equals(sl.Mapping()) || !sl.Mapping().Equals(dec.Mapping()) {
					fail("C06.round-trip", "the decoded mapping is not equal to the producer's (omitMapping=%v)", omit)
					return
				}
				// ... and bit for bit the same parameters (judged without Equals)
				if !proto.Equal(dec.Mapping().ToProto(), sl.Mapping().ToProto()) {
					fail("C06.round-trip", "the decoded mapping %v differs from the producer's %v (omitMapping=%v)", dec.Mapping().ToProto(), sl.Mapping().ToProto(), omit)
					return
				}
				mc.Count("decodes", 1)
				if t.K == sl.Store.K && t.N == 0 {
					// same answers to every query (same store kind, unbounded)
					if a, b := ObserveSketch(dec.Q()), before; a != b {
						fail("C06.same-answers", "the decoded sketch answers differently\n  decoded:  %s\n  original: %s", a, b)
						return
					}
				}
			}
		}
	}
	// a receiver that held this very content, was cleared and is reused as the
	// target of decoding (the pattern the decoder's documentation recommends),
	// and a copy of such a cleared receiver
	encSelf := encodeOf(q, false)
	for _, t := range codecTargets {
		rcc := rebuild(md, t, sl.Exact)
		rcc.Q().Clear()
		rcc = rcc.CopyOf()
		if err := rcc.Q().DecodeAndMergeWith(encSelf); err != nil {
			fail("C06.round-trip", "decoding into a copy of a cleared %s receiver failed: %v", t, err)
			return
		}
		if got, want := SketchContent(rcc.Q()), expectedContent(t, md); got != want {
			fail("C06.round-trip", "decoded into a copy of a cleared %s receiver that held the same content\n  got:  %s\n  want: %s", t, got, want)
			return
		}
		rc := rebuild(md, t, sl.Exact)
		rc.Q().Clear()
		if err := rc.Q().DecodeAndMergeWith(encSelf); err != nil {
			fail("C06.round-trip", "decoding into a cleared %s receiver that held the same content failed: %v", t, err)
			return
		}
		if got, want := SketchContent(rc.Q()), expectedContent(t, md); got != want {
			fail("C06.round-trip", "decoded into a cleared %s receiver that held the same content\n  got:  %s\n  want: %s", t, got, want)
			return
		}
		mc.Count("decodes", 1)
	}
	// the encoding of the exact-statistics variant read by the plain decoder: the
	// statistics blocks are skipped, the bins are the same
	if sl.Exact {
		for _, t := range codecTargets {
			dec, err := ddsketch.DecodeDDSketch(encSelf, t.Provider(), nil)
			if err != nil {
				fail("C06.round-trip", "the plain decoder refused the encoding of the exact-statistics variant (%s stores): %v", t, err)
				return
			}
			if got, want := SketchContent(dec), expectedContent(t, md); got != want {
				fail("C06.round-trip", "the plain decoder read other bins from the encoding of the exact-statistics variant (%s stores)\n  got:  %s\n  want: %s", t, got, want)
				return
			}
		}
	}
	// nothing is remembered between decodes: a sketch on a mapping of the same kind
	// and base with another offset, decoded in between, comes back with its own
	// mapping, and so does this one afterwards
	{
		g, o := mapParams(md.Map)
		osp := MapSpec{Kind: md.Spec.Kind, Gamma: g, Offset: o + 1}
		if md.Spec.Gamma == 0 {
			osp.Kind = md.Spec.Kind
		}
		om := osp.New()
		other := NewSkSlot(om, sl.Store, sl.Exact)
		other.Q().Add(om.Value(om.Index(1) + 3))
		d1, err1 := DecodeSlot(encodeOf(other.Q(), false), sl.Store, sl.Exact, nil)
		d2, err2 := DecodeSlot(encSelf, sl.Store, sl.Exact, nil)
		if err1 != nil || err2 != nil {
			fail("C06.round-trip", "decoding a sketch whose mapping differs only by its offset, then this one again, failed: %v / %v", err1, err2)
			return
		}
		if !proto.Equal(d1.Mapping().ToProto(), om.ToProto()) || !proto.Equal(d2.Mapping().ToProto(), md.Map.ToProto()) {
			fail("C06.round-trip", "decoded one after the other, a sketch on %v and this one on %v came back with mappings %v and %v", om.ToProto(), md.Map.ToProto(), d1.Mapping().ToProto(), d2.Mapping().ToProto())
			return
		}
	}
	// composition with merging, against the other slot of the world
	if len(w.S) < 2 {
		return
	}
	o := 1 - slot
	od := w.M[o]
	if od.Approx || od.Spec != md.Spec {
		return
	}
	enc := encodeOf(q, false)
	encO := encodeOf(w.S[o].Q(), false)
	encOmit := encodeOf(q, true)
	for _, t := range codecTargets {
		r1, r2 := rebuild(od, t, sl.Exact), rebuild(od, t, sl.Exact)
		if err := r1.Q().DecodeAndMergeWith(enc); err != nil {
			fail("C06.decode-is-merge", "DecodeAndMergeWith into a non-empty %s receiver failed: %v", t, err)
			return
		}
		must(r2.MergeWith(sl), "MergeWith")
		// the receiver was rebuilt from b's absorbed entries with stores of kind t
		odT := NewSkModel(t, od.Spec, od.Map)
		for _, e := range od.Ent {
			odT.Add(e.V, e.W)
		}
		want := expectedContent(t, odT, md)
		if a, b := SketchContent(r1.Q()), SketchContent(r2.Q()); a != b || a != want {
			fail("C06.decode-is-merge", "decoding into a non-empty %s receiver (absorbed %v) is not merging\n  decode-merge: %s\n  MergeWith:    %s\n  reference:    %s", t, od.Ent, a, b, want)
			return
		}
		if a, b := r1.Q().GetCount(), r2.Q().GetCount(); a != b {
			fail("C06.decode-is-merge", "count after decode-merge %v, after MergeWith %v (%s receiver)", a, b, t)
		}
		// concatenation of encodings (second and third without / with mapping)
		cat := append(append(append([]byte{}, enc...), encO...), encOmit...)
		dec, err := DecodeSlot(cat, t, sl.Exact, nil)
		if err != nil {
			fail("C06.concatenation", "decoding enc(a)|enc(b)|enc(a) into %s stores failed: %v", t, err)
			return
		}
		if got, want := SketchContent(dec.Q()), expectedContent(t, md, od, md); got != want {
			fail("C06.concatenation", "enc(a)|enc(b)|enc(a) decoded into %s stores (b absorbed %v)\n  got:  %s\n  want: %s", t, od.Ent, got, want)
			return
		}
		if sl.Exact {
			// the exact statistics of the three encodings add up as well
			qo := w.S[o].Q()
			wantCount := 2*q.GetCount() + qo.GetCount()
			if dec.Q().GetCount() != wantCount {
				fail("C06.concatenation", "enc(a)|enc(b)|enc(a) decoded into %s stores: exact count %v, the three encodings carry %v", t, dec.Q().GetCount(), wantCount)
				return
			}
			if wantCount > 0 {
				wmn, wmx := math.Inf(1), math.Inf(-1)
				for _, x := range []Sketch{q, qo} {
					if !x.IsEmpty() {
						a, _ := x.GetMinValue()
						b, _ := x.GetMaxValue()
						wmn, wmx = math.Min(wmn, a), math.Max(wmx, b)
					}
				}
				gmn, _ := dec.Q().GetMinValue()
				gmx, _ := dec.Q().GetMaxValue()
				ws := 2*q.GetSum() + qo.GetSum()
				if gmn != wmn || gmx != wmx || math.Abs(dec.Q().GetSum()-ws) > 8*math.Ldexp(1, -52)*(2*math.Abs(q.GetSum())+math.Abs(qo.GetSum())) {
					fail("C06.concatenation", "enc(a)|enc(b)|enc(a) decoded into %s stores: exact min/max/sum %v/%v/%v, the three encodings carry %v/%v/%v", t, gmn, gmx, dec.Q().GetSum(), wmn, wmx, ws)
					return
				}
			}
		}
		mc.Count("decodes", 2)
	}
	return
}

func wireMapKind(m mapping.IndexMapping) int {
	switch m.ToProto().Interpolation {
	case sketchpb.IndexMapping_NONE:
		return 0
	case sketchpb.IndexMapping_LINEAR:
		return 1
	case sketchpb.IndexMapping_QUADRATIC:
		return 2
	case sketchpb.IndexMapping_CUBIC:
		return 3
	}
	return -1
}

func wireContentString(c model.WireContent) string {
	return "zero=" + fstr(c.Zero) + " pos={" + ModelContent(&model.MapStore{M: c.Pos}) + "} neg={" + ModelContent(&model.MapStore{M: c.Neg}) + "}"
}

// wireVsHeld compares what the independent decoder read with what the sketch
// holds. Weights travel through the documented (w+1)-1 transform, once per
// encoded count (at most two counts per bin: buffered entries and a page), so
// a weight that is not exactly representable after +1 may come back within
// 4 ulps of (1+w); everything else must be identical.
func wireVsHeld(c model.WireContent, q Sketch) string {
	cmp := func(name string, read map[int]float64, st store.Store) string {
		held := map[int]float64{}
		st.ForEach(func(i int, w float64) bool { held[i] += w; return false })
		if len(held) != len(read) {
			return fmt.Sprintf("%s: %d bins read, %d held", name, len(read), len(held))
		}
		for k, w := range held {
			r, ok := read[k]
			if !ok {
				return fmt.Sprintf("%s: bin %d missing", name, k)
			}
			if r != w && !(math.Abs(r-w) <= 4*math.Ldexp(1, -52)*(1+w) && (w+1)-1 != w) {
				return fmt.Sprintf("%s: bin %d read %v, held %v", name, k, r, w)
			}
		}
		return ""
	}
	if d := cmp("positive", c.Pos, q.GetPositiveValueStore()); d != "" {
		return d
	}
	if d := cmp("negative", c.Neg, q.GetNegativeValueStore()); d != "" {
		return d
	}
	z := q.GetZeroCount()
	if c.Zero != z && c.Zero != (z+1)-1 {
		return fmt.Sprintf("zero weight read %v, held %v", c.Zero, z)
	}
	return ""
}

// checkC07: every encoding parses with the independent decoder written from
// the documentation, to the same content; the plain decoder accepts the
// encoding of the exact-statistics variant.
func checkC07(w *SketchWorld, slot int) (fails []mc.Fail) {
	sl, md := w.S[slot], w.M[slot]
	q := sl.Q()
	where := fmt.Sprintf("%s, producer %s store, exact=%v, absorbed %v: ", md.Spec, sl.Store, sl.Exact, md.Ent)
	fail := func(clause, format string, a ...any) {
		fails = append(fails, mc.Fail{Clause: clause, Detail: where + fmt.Sprintf(format, a...)})
	}
	for _, omit := range []bool{false, true} {
		for _, enc := range encodingsUnderOrders(q, omit) {
			blocks, werr := model.ParseWire(enc)
			if werr != nil {
				fail("C07.documented-format", "the encoding % x is not a sequence of documented blocks: %v", enc, werr)
				return
			}
			c := model.ContentOf(blocks)
			if d := wireVsHeld(c, q); d != "" {
				fail("C07.documented-format", "an independent decoder reads other content from % x: %s\n  read: %s\n  held: %s", enc, d, wireContentString(c), SketchContent(q))
				return
			}
			gamma, offset := mapParams(md.Map)
			if omit {
				if c.HasMapping {
					fail("C07.documented-format", "a mapping block is present although omitIndexMapping was set")
				}
			} else if c.Mappings != 1 || c.MapKind != wireMapKind(md.Map) || c.Gamma != gamma || c.Offset != offset {
				fail("C07.documented-format", "mapping block(s) %d kind %d gamma %v offset %v; the sketch has kind %d gamma %v offset %v", c.Mappings, c.MapKind, c.Gamma, c.Offset, wireMapKind(md.Map), gamma, offset)
			}
			if sl.Exact && !q.IsEmpty() {
				mn, _ := q.GetMinValue()
				mx, _ := q.GetMaxValue()
				if !c.HasStats || c.Count != (q.GetCount()+1)-1 || c.Sum != q.GetSum() || c.Min != mn || c.Max != mx {
					fail("C07.documented-format", "statistics blocks count=%v sum=%v min=%v max=%v; the sketch reports %v %v %v %v", c.Count, c.Sum, c.Min, c.Max, q.GetCount(), q.GetSum(), mn, mx)
				}
			}
			if !sl.Exact && c.HasStats {
				fail("C07.documented-format", "a plain sketch wrote statistics blocks")
			}
			mc.Count("encodings_parsed", 1)
			for _, bl := range blocks {
				if bl.Kind == "positive" || bl.Kind == "negative" {
					mc.Count(fmt.Sprintf("%s_store_blocks_in_layout_%d_written_by_the_implementation", sl.Store.String()[:1], bl.Layout), 1)
				}
			}
			if sl.Exact {
				// the plain decoder accepts it and ignores the statistics; the content is
				// what the documentation assigns to the blocks (weights through +1/-1)
				for _, t := range codecTargets {
					dec, err := ddsketch.DecodeDDSketch(enc, t.Provider(), supplied(md, omit))
					if err != nil {
						fail("C07.plain-decodes-exact", "DecodeDDSketch of the encoding % x of a sketch with exact statistics failed: %v", enc, err)
						return
					}
					exp := NewSkModel(t, md.Spec, md.Map)
					for _, k := range sortedKeys(c.Pos) {
						exp.Pos.Add(k, c.Pos[k])
					}
					for _, k := range sortedKeys(c.Neg) {
						exp.Neg.Add(k, c.Neg[k])
					}
					exp.Zero = c.Zero
					if got, want := SketchContent(dec), exp.Content(); got != want {
						fail("C07.plain-decodes-exact", "DecodeDDSketch (into %s stores) of the exact variant's encoding\n  got:  %s\n  want: %s", t, got, want)
						return
					}
				}
			}
		}
	}
	return
}

// definedFlag reports whether a byte is a flag the format documentation defines.
func definedFlag(b byte) bool {
	typ, sub := b&3, b>>2
	switch typ {
	case 0:
		return sub == 1 || sub == 0x28 || sub == 0x21 || sub == 0x22 || sub == 0x23
	case 2:
		return sub <= 4
	default:
		return sub >= 1 && sub <= 3
	}
}

var seenFlagSeq = map[string]bool{}

// checkC08: every cut point of the encoding, every undefined flag at every
// block boundary.
func checkC08(w *SketchWorld, slot int) (fails []mc.Fail) {
	sl, md := w.S[slot], w.M[slot]
	if md.Approx {
		return
	}
	q := sl.Q()
	where := fmt.Sprintf("%s, producer %s store, exact=%v, absorbed %v: ", md.Spec, sl.Store, sl.Exact, md.Ent)
	fail := func(clause, format string, a ...any) {
		fails = append(fails, mc.Fail{Clause: clause, Detail: where + fmt.Sprintf(format, a...)})
	}
	consumers := []Kind{sl.Store, {K: 'P'}, {K: 'S'}}
	if sl.Store.K == 'P' {
		consumers = []Kind{{K: 'P'}, {K: 'D'}, {K: 'S'}}
	}
	for _, omit := range []bool{false, true} {
		enc := encodeOf(q, omit)
		blocks, werr := model.ParseWire(enc)
		if werr != nil {
			return // C07's business
		}
		boundary := map[int]int{0: 0}
		for i, b := range blocks {
			boundary[b.End] = i + 1
		}
		for t := 0; t < len(enc); t++ {
			prefix := enc[:t:t]
			nb, onBoundary := boundary[t]
			for ci, ck := range consumers {
				dec, err := DecodeSlot(prefix, ck, sl.Exact, supplied(md, omit))
				mc.Count("truncations", 1)
				if !onBoundary {
					if err == nil {
						fail("C08.no-silent-truncation", "the encoding % x cut at byte %d (inside a block) decoded into %s stores without error, holding %s", enc, t, ck, SketchContent(dec.Q()))
						return
					}
					continue
				}
				c := model.ContentOf(blocks[:nb])
				mappingKnown := omit || c.HasMapping
				if !mappingKnown {
					if err == nil {
						fail("C08.missing-mapping", "a stream without mapping block (% x) decoded without error although no mapping was supplied", prefix)
						return
					}
					continue
				}
				if err != nil {
					if sl.Exact && c.Count == 0 && (len(c.Pos) > 0 || len(c.Neg) > 0 || c.Zero != 0) {
						continue // bins without statistics: the exact decoder may refuse
					}
					fail("C08.boundary-cut", "the encoding % x cut at byte %d (between blocks) was refused by the %s decoder: %v", enc, t, ck, err)
					return
				}
				exp := NewSkModel(ck, md.Spec, md.Map)
				for _, k := range sortedKeys(c.Pos) {
					exp.Pos.Add(k, c.Pos[k])
				}
				for _, k := range sortedKeys(c.Neg) {
					exp.Neg.Add(k, c.Neg[k])
				}
				exp.Zero = c.Zero
				if got, want := SketchContent(dec.Q()), exp.Content(); got != want {
					fail("C08.no-silent-truncation", "the encoding % x cut at byte %d decoded into %s stores to content that differs from its complete blocks\n  got:  %s\n  want: %s", enc, t, ck, got, want)
					return
				}
				_ = ci
			}
			if sl.Exact {
				// the plain decoder reading (and ignoring) the statistics blocks of this
				// truncated exact-variant encoding
				dec, err := ddsketch.DecodeDDSketch(prefix, consumers[0].Provider(), supplied(md, omit))
				mc.Count("truncations", 1)
				c := model.ContentOf(blocks[:nb])
				switch {
				case !onBoundary && err == nil:
					fail("C08.no-silent-truncation", "the encoding % x cut at byte %d (inside a block) was decoded by the plain decoder without error", enc, t)
					return
				case onBoundary && (omit || c.HasMapping) && err != nil:
					fail("C08.boundary-cut", "the encoding % x cut at byte %d (between blocks) was refused by the plain decoder: %v", enc, t, err)
					return
				case onBoundary && (omit || c.HasMapping):
					exp := NewSkModel(consumers[0], md.Spec, md.Map)
					for _, k := range sortedKeys(c.Pos) {
						exp.Pos.Add(k, c.Pos[k])
					}
					for _, k := range sortedKeys(c.Neg) {
						exp.Neg.Add(k, c.Neg[k])
					}
					exp.Zero = c.Zero
					if got, want := SketchContent(dec), exp.Content(); got != want {
						fail("C08.no-silent-truncation", "the encoding % x cut at byte %d decoded by the plain decoder to content that differs from its complete blocks\n  got:  %s\n  want: %s", enc, t, got, want)
						return
					}
				}
			}
			// into a non-empty receiver: a cut inside a block must still be an error
			if !onBoundary && len(w.S) > 1 && !w.M[1-slot].Approx && w.M[1-slot].Spec == md.Spec {
				r := rebuild(w.M[1-slot], consumers[0], sl.Exact)
				if err := r.Q().DecodeAndMergeWith(prefix); err == nil {
					fail("C08.no-silent-truncation", "the encoding % x cut at byte %d (inside a block) was merged into a non-empty receiver without error", enc, t)
					return
				}
			}
		}
		// undefined flags at every block boundary, once per distinct flag sequence
		var sig strings.Builder
		for _, b := range blocks {
			fmt.Fprintf(&sig, "%02x", b.Flag)
		}
		key := fmt.Sprintf("%v|%v|%s|%s", sl.Exact, omit, sl.Store, sig.String())
		if seenFlagSeq[key] {
			continue
		}
		seenFlagSeq[key] = true
		for _, b := range blocks {
			for f := 0; f < 256; f++ {
				if definedFlag(byte(f)) {
					continue
				}
				bad := append([]byte{}, enc...)
				bad[b.Start] = byte(f)
				for _, ck := range consumers[:2] {
					if _, err := DecodeSlot(bad, ck, sl.Exact, supplied(md, omit)); err == nil {
						fail("C08.unknown-flag", "the encoding % x with the undefined flag %#02x at byte %d decoded without error", bad, f, b.Start)
						return
					}
					mc.Count("flag_substitutions", 1)
				}
			}
		}
	}
	return
}

func sortedKeys(m map[int]float64) []int {
	ks := make([]int, 0, len(m))
	for k := range m {
		ks = append(ks, k)
	}
	sort.Ints(ks)
	return ks
}

// checkC09: protobuf message and streaming writer.
func checkC09(w *SketchWorld, slot int) (fails []mc.Fail) {
	sl, md := w.S[slot], w.M[slot]
	if sl.Exact {
		return
	}
	where := fmt.Sprintf("%s, producer %s store, absorbed %v: ", md.Spec, sl.Store, md.Ent)
	fail := func(clause, format string, a ...any) {
		fails = append(fails, mc.Fail{Clause: clause, Detail: where + fmt.Sprintf(format, a...)})
	}
	before := ObserveSketch(sl.P)
	msg := sl.P.ToProto()
	raw, err := proto.Marshal(msg)
	if err != nil {
		fail("C09.round-trip", "Marshal failed: %v", err)
		return
	}
	var back sketchpb.DDSketch
	if err := proto.Unmarshal(raw, &back); err != nil {
		fail("C09.round-trip", "Unmarshal failed: %v", err)
		return
	}
	var content string
	if md.Approx {
		content = SketchContent(sl.P) // arbitrary non-negative weights: the sketch's own bins are the reference
	}
	for _, t := range codecTargets {
		if md.Approx && t.N > 0 {
			continue
		}
		dec, err := ddsketch.FromProtoWithStoreProvider(&back, t.Provider())
		if err != nil {
			fail("C09.round-trip", "FromProtoWithStoreProvider(%s) failed: %v", t, err)
			return
		}
		want := content
		if !md.Approx {
			want = expectedContent(t, md)
		}
		if got := SketchContent(dec); got != want {
			fail("C09.round-trip", "rebuilt with %s stores from the message\n  got:  %s\n  want: %s", t, got, want)
			return
		}
		if !dec.IndexMapping.Equals(sl.P.IndexMapping) || !sl.P.IndexMapping.Equals(dec.IndexMapping) {
			fail("C09.round-trip", "the rebuilt mapping is not equal to the original")
			return
		}
		if !proto.Equal(dec.IndexMapping.ToProto(), sl.P.IndexMapping.ToProto()) {
			fail("C09.round-trip", "the rebuilt mapping %v is not bit for bit the original %v", dec.IndexMapping.ToProto(), sl.P.IndexMapping.ToProto())
			return
		}
		mc.Count("proto_round_trips", 1)
	}
	// a message whose mapping differs by a few ulps, rebuilt right after this one,
	// must come back with its own parameters (nothing may be remembered between calls)
	nb := proto.Clone(&back).(*sketchpb.DDSketch)
	nb.Mapping.Gamma = math.Nextafter(math.Nextafter(nb.Mapping.Gamma, 2), 2)
	nb.Mapping.IndexOffset = math.Nextafter(nb.Mapping.IndexOffset, math.Inf(1))
	if dec, err := ddsketch.FromProtoWithStoreProvider(nb, sl.Store.Provider()); err != nil {
		fail("C09.round-trip", "FromProto of a neighbouring mapping failed: %v", err)
	} else if !proto.Equal(dec.IndexMapping.ToProto(), nb.Mapping) {
		fail("C09.round-trip", "a message with mapping %v, rebuilt right after one with mapping %v, came back with mapping %v", nb.Mapping, back.Mapping, dec.IndexMapping.ToProto())
	}
	var stream bytes.Buffer
	sl.P.EncodeProto(&stream)
	var streamed sketchpb.DDSketch
	if err := proto.Unmarshal(stream.Bytes(), &streamed); err != nil {
		fail("C09.streaming-equals-message", "the bytes of the streaming writer do not unmarshal: %v (% x)", err, stream.Bytes())
		return
	}
	if !proto.Equal(&streamed, sl.P.ToProto()) {
		fail("C09.streaming-equals-message", "the streaming writer's bytes unmarshal to a different message\n  streamed: %v\n  ToProto:  %v", &streamed, sl.P.ToProto())
		return
	}
	if after := ObserveSketch(sl.P); after != before {
		fail("C09.pure", "ToProto/EncodeProto changed the observable state")
	}
	// rebuilt into stores that were used and then cleared (a recycling provider):
	// the same bins as into new stores
	if !md.Approx {
		recycle := func() store.Store {
			st := store.NewBufferedPaginatedStore()
			for _, ms := range []*model.MapStore{md.Pos, md.Neg} {
				for _, k := range ms.Keys() {
					st.AddWithCount(k, 2)
					st.Add(k + 1)
				}
			}
			st.Clear()
			return st
		}
		if dec, err := ddsketch.FromProtoWithStoreProvider(&back, recycle); err != nil {
			fail("C09.round-trip", "FromProtoWithStoreProvider with cleared paginated stores failed: %v", err)
		} else if got, want := SketchContent(dec), expectedContent(Kind{K: 'P'}, md); got != want {
			fail("C09.round-trip", "rebuilt from the message into paginated stores that had been used and cleared\n  got:  %s\n  want: %s", got, want)
		}
	}
	// the message is a snapshot: what happens to the sketch afterwards (additions,
	// Clear and reuse) does not reach a message taken before
	{
		held := sl.P.ToProto()
		raw1, _ := proto.Marshal(held)
		for _, e := range md.Ent {
			sl.P.AddWithCount(e.V, 2)
		}
		sl.P.Add(1)
		sl.P.Add(-1)
		raw2, _ := proto.Marshal(held)
		sl.P.Clear()
		sl.P.Add(1)
		sl.P.AddWithCount(-1, 3)
		raw3, _ := proto.Marshal(held)
		var m1, m2, m3 sketchpb.DDSketch
		proto.Unmarshal(raw1, &m1)
		proto.Unmarshal(raw2, &m2)
		proto.Unmarshal(raw3, &m3)
		if !proto.Equal(&m1, &m2) || !proto.Equal(&m1, &m3) {
			fail("C09.round-trip", "a message taken from the sketch changed when the sketch was used afterwards\n  as taken:              %v\n  after additions:       %v\n  after Clear and reuse: %v", &m1, &m2, &m3)
		}
	}
	return
}

// grammarShards: every well-formed stream of the documented grammar within
// bounds, decoded by the implementation into each store kind (C07 direction 2).
// grammarBlock: one store block of the documented grammar with the bins the
// documentation assigns to it.
type grammarBlock struct {
	bytes []byte
	bins  []model.WireBin
	neg   bool
	// far: indexes near both ends of the int32 range (the delta between them does
	// not fit in 32 bits). Array-backed targets would have to allocate the whole
	// span, and the paginated store its page table (unless every count happens to
	// stay a unit entry of its buffer, which is a choice of the implementation and
	// not relied upon): those targets are skipped for such blocks.
	far, farPaged bool
}

// grammarJudge compares a sketch decoded from a grammar stream with what the
// documentation assigns to the stream: bins, extreme indexes of each side,
// emptiness and count ("" = agrees). Used by the enumeration and by its replay.
func grammarJudge(dec *ddsketch.DDSketch, exp *SkModel) string {
	if got, want := SketchContent(dec), exp.Content(); got != want {
		return fmt.Sprintf("bins\n  got:  %s\n  want: %s", got, want)
	}
	for side, pr := range map[string][2]any{"positive": {dec.GetPositiveValueStore(), exp.Pos}, "negative": {dec.GetNegativeValueStore(), exp.Neg}} {
		sd, em := pr[0].(store.Store), pr[1].(*model.MapStore)
		lo, ok := em.Min()
		hi, _ := em.Max()
		mn, e1 := sd.MinIndex()
		mx, e2 := sd.MaxIndex()
		if sd.IsEmpty() != !ok || (ok && (e1 != nil || e2 != nil || mn != lo || mx != hi)) {
			return fmt.Sprintf("the %s store reports empty=%v min=%d max=%d; its non-empty bins are %s", side, sd.IsEmpty(), mn, mx, ModelContent(em))
		}
	}
	if total := exp.Total(); dec.IsEmpty() != (total == 0) || dec.GetCount() != total {
		return fmt.Sprintf("empty=%v count=%v; the bins hold a total weight of %v", dec.IsEmpty(), dec.GetCount(), total)
	}
	return ""
}

// grammarBlocksOne: a two-bin block (weights 2 and 0.5, consecutive indexes) of the given layout.
func grammarBlocksOne(neg bool, layout int, first int64) grammarBlock {
	typ := byte(1)
	if neg {
		typ = 3
	}
	b := []byte{typ | byte(layout)<<2}
	b = model.AppendUvarint(b, 2)
	var bins []model.WireBin
	switch layout {
	case 1:
		b = model.AppendVarint(b, first)
		b = model.AppendVarfloat(b, 2)
		b = model.AppendVarint(b, 1)
		b = model.AppendVarfloat(b, 0.5)
		bins = []model.WireBin{{Index: first, Count: 2}, {Index: first + 1, Count: 0.5}}
	case 2:
		b = model.AppendVarint(b, first)
		b = model.AppendVarint(b, 1)
		bins = []model.WireBin{{Index: first, Count: 1}, {Index: first + 1, Count: 1}}
	default:
		b = model.AppendVarint(b, first)
		b = model.AppendVarint(b, 1)
		b = model.AppendVarfloat(b, 2)
		b = model.AppendVarfloat(b, 0.5)
		bins = []model.WireBin{{Index: first, Count: 2}, {Index: first + 1, Count: 0.5}}
	}
	return grammarBlock{bytes: b, bins: bins, neg: neg}
}

// grammarBlocks enumerates the first blocks of the grammar (DESIGN.md section 4, C07).
func grammarBlocks() []grammarBlock {
	type blk = grammarBlock
	firsts := []int64{-33, 0, 31}
	deltas := []int64{-33, -2, -1, 0, 1, 2, 33, 1000}
	single := []float64{0, 0.5, 1, 2, 3}
	patterns := [][]float64{{1, 1, 1}, {0.5, 2, 3}, {0, 1, 0}, {2, 0, 0.5}}
	var all []blk
	mk := func(neg bool, layout int, first int64, ds []int64, cs []float64) blk {
		typ := byte(1)
		if neg {
			typ = 3
		}
		b := []byte{typ | byte(layout)<<2}
		n := len(cs)
		b = model.AppendUvarint(b, uint64(n))
		var bins []model.WireBin
		switch layout {
		case 1, 2:
			idx := int64(0)
			for i := 0; i < n; i++ {
				d := first
				if i > 0 {
					d = ds[i-1]
				}
				idx += d
				b = model.AppendVarint(b, d)
				if layout == 1 {
					b = model.AppendVarfloat(b, cs[i])
					bins = append(bins, model.WireBin{Index: idx, Count: cs[i]})
				} else {
					bins = append(bins, model.WireBin{Index: idx, Count: 1})
				}
			}
		case 3:
			stride := int64(1)
			if len(ds) > 0 {
				stride = ds[0]
			}
			b = model.AppendVarint(b, first)
			b = model.AppendVarint(b, stride)
			idx := first
			for i := 0; i < n; i++ {
				b = model.AppendVarfloat(b, cs[i])
				bins = append(bins, model.WireBin{Index: idx, Count: cs[i]})
				idx += stride
			}
		}
		return blk{bytes: b, bins: bins, neg: neg}
	}
	for _, neg := range []bool{false, true} {
		for layout := 1; layout <= 3; layout++ {
			all = append(all, mk(neg, layout, 0, nil, nil)) // N = 0
			for _, f := range firsts {
				if layout == 3 {
					for _, st := range deltas {
						for _, c := range single {
							all = append(all, mk(neg, 3, f, []int64{st}, []float64{c}))
						}
						for _, p := range patterns {
							all = append(all, mk(neg, 3, f, []int64{st}, p[:2]), mk(neg, 3, f, []int64{st}, p))
						}
					}
					continue
				}
				for _, c := range single {
					all = append(all, mk(neg, layout, f, nil, []float64{c}))
					if layout == 2 {
						break
					}
				}
				for _, d1 := range deltas {
					for _, p := range patterns {
						all = append(all, mk(neg, layout, f, []int64{d1}, p[:2]))
						if layout == 2 {
							break
						}
					}
					for _, d2 := range deltas {
						for _, p := range patterns {
							all = append(all, mk(neg, layout, f, []int64{d1, d2}, p))
							if layout == 2 {
								break
							}
						}
					}
				}
			}
		}
	}
	// indexes 10 away from both ends of the int32 range: a delta (or stride) of 2^32-20
	for _, neg := range []bool{false, true} {
		const lo, span = math.MinInt32 + 10, int64(math.MaxInt32-10) - (math.MinInt32 + 10)
		for layout := 1; layout <= 3; layout++ {
			b := mk(neg, layout, lo, []int64{span}, []float64{1, 1})
			b.far, b.farPaged = true, true
			all = append(all, b)
			if layout != 2 {
				b = mk(neg, layout, lo, []int64{span}, []float64{0.5, 2})
				b.far, b.farPaged = true, true
				all = append(all, b)
			}
			b = mk(neg, layout, lo+span, []int64{-span}, []float64{1, 1})
			b.far, b.farPaged = true, true
			all = append(all, b)
		}
	}
	return all
}

func grammarShards(tier string) []mc.Shard {
	type blk = grammarBlock
	all := grammarBlocks()
	// a reduced set of second blocks
	var second []blk
	for i, b := range all {
		if i%17 == 0 || len(b.bins) == 0 {
			second = append(second, b)
		}
	}
	// ... plus, for each layout, a non-empty block far below and far above the
	// first blocks' indexes (a first block of zero counts must leave nothing behind)
	for layout := 1; layout <= 3; layout++ {
		for _, f := range []int64{-300, 2000} {
			second = append(second, grammarBlocksOne(false, layout, f), grammarBlocksOne(true, layout, f))
		}
	}
	if tier == "thorough" {
		second = nil
		for i, b := range all {
			if i%3 == 0 {
				second = append(second, b)
			}
		}
	}
	ms := MapSpec{Kind: 'G', Alpha: 0.02}
	nshards := 16
	var shards []mc.Shard
	for sh := 0; sh < nshards; sh++ {
		sh := sh
		name := fmt.Sprintf("C07/grammar/%d-of-%d", sh+1, nshards)
		shards = append(shards, mc.Shard{Name: name, Weight: 1000, Run: func(deadline time.Time) *mc.Result {
			start := time.Now()
			res := &mc.Result{Scenario: name, Property: "C07", Exhaustive: true}
			m := ms.New()
			var mapBlock []byte
			m.Encode(&mapBlock)
			zero := model.AppendVarfloat([]byte{1 << 2}, 0.5)
			distinct := map[string]struct{}{}
			try := func(stream []byte, blocks []blk, zeroW float64, withMap bool) (ok bool) {
				mc.ProgressInput("decoding the stream", stream, 0)
				defer func() {
					if r := recover(); r != nil {
						res.Violations = append(res.Violations, mc.Violation{Property: "C07", Clause: "C07.no-panic", Scenario: name, Seed: "stream",
							History: []string{fmt.Sprintf("% x", stream), "any"},
							Detail:  fmt.Sprintf("decoding the well-formed stream % x panicked: %v\n%s", stream, r, debug.Stack())})
						ok = false
					}
				}()
				for _, t := range codecTargets {
					skip := false
					for _, b := range blocks {
						if (b.far && t.K == 'D') || (b.farPaged && t.K == 'P') {
							skip = true
						}
					}
					if skip {
						continue
					}
					var sup mapping.IndexMapping
					if !withMap {
						sup = m
					}
					dec, err := ddsketch.DecodeDDSketch(stream, t.Provider(), sup)
					res.Evaluations++
					exp := NewSkModel(t, ms, m)
					for _, b := range blocks {
						for _, bin := range b.bins {
							if b.neg {
								exp.Neg.Add(int(bin.Index), bin.Count)
							} else {
								exp.Pos.Add(int(bin.Index), bin.Count)
							}
						}
					}
					exp.Zero = zeroW
					want := exp.Content()
					if err != nil || SketchContent(dec) != want {
						got := "error: " + fmt.Sprint(err)
						if err == nil {
							got = SketchContent(dec)
						}
						res.Violations = append(res.Violations, mc.Violation{Property: "C07", Clause: "C07.accepts-valid-streams", Scenario: name, Seed: "stream",
							History: []string{fmt.Sprintf("% x", stream), t.String()},
							Detail:  fmt.Sprintf("the well-formed stream % x decoded into %s stores\n  got:  %s\n  want: %s", stream, t, got, want)})
						return false
					}
					distinct[want] = struct{}{}
					// the extreme indexes of each side are those of its non-empty bins
					for side, pr := range map[string][2]any{"positive": {dec.GetPositiveValueStore(), exp.Pos}, "negative": {dec.GetNegativeValueStore(), exp.Neg}} {
						sd, em := pr[0].(store.Store), pr[1].(*model.MapStore)
						lo, ok := em.Min()
						hi, _ := em.Max()
						mn, e1 := sd.MinIndex()
						mx, e2 := sd.MaxIndex()
						if sd.IsEmpty() != !ok || (ok && (e1 != nil || e2 != nil || mn != lo || mx != hi)) {
							res.Violations = append(res.Violations, mc.Violation{Property: "C07", Clause: "C07.accepts-valid-streams", Scenario: name, Seed: "stream",
								History: []string{fmt.Sprintf("% x", stream), t.String()},
								Detail:  fmt.Sprintf("the well-formed stream % x decoded into %s stores: the %s store reports empty=%v min=%d max=%d; its non-empty bins are %s", stream, t, side, sd.IsEmpty(), mn, mx, ModelContent(em))})
							return false
						}
					}
					// emptiness and count agree with the bins (a block of zero counts adds nothing)
					if total := exp.Total(); dec.IsEmpty() != (total == 0) || dec.GetCount() != total {
						res.Violations = append(res.Violations, mc.Violation{Property: "C07", Clause: "C07.accepts-valid-streams", Scenario: name, Seed: "stream",
							History: []string{fmt.Sprintf("% x", stream), t.String()},
							Detail:  fmt.Sprintf("the well-formed stream % x decoded into %s stores reports empty=%v count=%v; its bins hold a total weight of %v", stream, t, dec.IsEmpty(), dec.GetCount(), total)})
						return false
					}
				}
				// the same stream merged into a paginated receiver whose buffer is already
				// past its compaction trigger (100 scattered unit entries on each side)
				far := false
				for _, b := range blocks {
					far = far || b.farPaged
				}
				if !far {
					// ... and into a paginated receiver whose pages (around every index of the
					// grammar) were allocated and then cleared
					pk := Kind{K: 'P'}
					rcl := ddsketch.NewDDSketch(m, pk.New(), pk.New())
					for _, i := range []int{-128, -96, -64, -32, 0, 32, 64, 96} { // eight adjacent pages: every slot of the page table in use
						rcl.GetPositiveValueStore().AddWithCount(i, 2)
						rcl.GetNegativeValueStore().AddWithCount(i, 2)
					}
					rcl.Clear()
					errc := rcl.DecodeAndMergeWith(stream)
					res.Evaluations++
					expc := NewSkModel(pk, ms, m)
					for _, b := range blocks {
						for _, bin := range b.bins {
							if b.neg {
								expc.Neg.Add(int(bin.Index), bin.Count)
							} else {
								expc.Pos.Add(int(bin.Index), bin.Count)
							}
						}
					}
					expc.Zero = zeroW
					if want := expc.Content(); errc != nil || SketchContent(rcl) != want {
						got := "error: " + fmt.Sprint(errc)
						if errc == nil {
							got = SketchContent(rcl)
						}
						res.Violations = append(res.Violations, mc.Violation{Property: "C07", Clause: "C07.accepts-valid-streams", Scenario: name, Seed: "stream",
							History: []string{fmt.Sprintf("% x", stream), "P-cleared-pages"},
							Detail:  fmt.Sprintf("the well-formed stream % x merged into a cleared paginated receiver that had pages\n  got:  %s\n  want: %s", stream, got, want)})
						return false
					}
				}
				if !far {
					pk := Kind{K: 'P'}
					rc := ddsketch.NewDDSketch(m, pk.New(), pk.New())
					exp := NewSkModel(pk, ms, m)
					for j := 0; j < 100; j++ {
						v := m.Value(2000 + 3*j)
						rc.Add(v)
						rc.Add(-v)
						exp.Add(v, 1)
						exp.Add(-v, 1)
					}
					err := rc.DecodeAndMergeWith(stream)
					res.Evaluations++
					for _, b := range blocks {
						for _, bin := range b.bins {
							if b.neg {
								exp.Neg.Add(int(bin.Index), bin.Count)
							} else {
								exp.Pos.Add(int(bin.Index), bin.Count)
							}
						}
					}
					exp.Zero = zeroW
					if want := exp.Content(); err != nil || SketchContent(rc) != want {
						got := "error: " + fmt.Sprint(err)
						if err == nil {
							got = SketchContent(rc)
						}
						res.Violations = append(res.Violations, mc.Violation{Property: "C07", Clause: "C07.accepts-valid-streams", Scenario: name, Seed: "stream",
							History: []string{fmt.Sprintf("% x", stream), "P-with-100-buffered"},
							Detail:  fmt.Sprintf("the well-formed stream % x merged into a paginated receiver holding 100 scattered unit entries per side\n  got:  %s\n  want: %s", stream, got, want)})
						return false
					}
				}
				return true
			}
			n := 0
			for i, b1 := range all {
				if i%nshards != sh {
					continue
				}
				if time.Now().After(deadline) {
					res.Exhaustive = false
					break
				}
				// single block, mapping block in each position, optional zero block
				if !try(append(append([]byte{}, b1.bytes...), mapBlock...), []blk{b1}, 0, true) ||
					!try(append(append([]byte{}, mapBlock...), b1.bytes...), []blk{b1}, 0, true) ||
					!try(append([]byte{}, b1.bytes...), []blk{b1}, 0, false) ||
					!try(append(append(append([]byte{}, zero...), b1.bytes...), zero...), []blk{b1}, 1, false) {
					break
				}
				// repeated block
				if !try(append(append([]byte{}, b1.bytes...), b1.bytes...), []blk{b1, b1}, 0, false) {
					break
				}
				bad := false
				for _, b2 := range second {
					s := append(append(append([]byte{}, b1.bytes...), mapBlock...), b2.bytes...)
					if !try(s, []blk{b1, b2}, 0, true) {
						bad = true
						break
					}
					n++
				}
				if bad {
					break
				}
				if len(res.Samples) < 2 {
					res.Samples = append(res.Samples, fmt.Sprintf("stream % x", append(append([]byte{}, b1.bytes...), mapBlock...)))
				}
			}
			if len(res.Violations) > 3 {
				res.Violations = res.Violations[:3]
			}
			res.States, res.Transitions = res.Evaluations, res.Evaluations
			res.Distinct = int64(len(distinct))
			res.Count("grammar_first_blocks", int64(len(all)))
			res.Count("grammar_second_blocks", int64(len(second)))
			res.WallS = time.Since(start).Seconds()
			return res
		}, Replay: func(seed string, history []string) (fails []mc.Fail, err error) {
			if len(history) < 2 {
				return nil, fmt.Errorf("a grammar replay needs the stream and the target kind")
			}
			defer func() {
				if r := recover(); r != nil {
					fails = append(fails, mc.Fail{Clause: "C07.no-panic", Detail: fmt.Sprintf("decoding the stream %s panicked: %v", history[0], r)})
				}
			}()
			var stream []byte
			for _, f := range strings.Fields(history[0]) {
				var x byte
				fmt.Sscanf(f, "%02x", &x)
				stream = append(stream, x)
			}
			m := ms.New()
			blocks, werr := model.ParseWire(stream)
			if werr != nil {
				return nil, fmt.Errorf("stream does not parse: %v", werr)
			}
			c := model.ContentOf(blocks)

			for _, t := range codecTargets {
				if t.String() != history[1] && history[1] != "any" {
					continue
				}
				var sup mapping.IndexMapping
				if !c.HasMapping {
					sup = m
				}
				dec, err := ddsketch.DecodeDDSketch(stream, t.Provider(), sup)
				exp := NewSkModel(t, ms, m)
				for _, k := range sortedKeys(c.Pos) {
					exp.Pos.Add(k, c.Pos[k])
				}
				for _, k := range sortedKeys(c.Neg) {
					exp.Neg.Add(k, c.Neg[k])
				}
				exp.Zero = c.Zero
				if err != nil {
					fails = append(fails, mc.Fail{Clause: "C07.accepts-valid-streams", Detail: fmt.Sprintf("stream % x into %s: err=%v want %s", stream, t, err, exp.Content())})
				} else if d := grammarJudge(dec, exp); d != "" {
					fails = append(fails, mc.Fail{Clause: "C07.accepts-valid-streams", Detail: fmt.Sprintf("stream % x into %s: %s", stream, t, d)})
				}
			}
			if history[1] == "P-cleared-pages" || history[1] == "any" {
				pk := Kind{K: 'P'}
				rcl := ddsketch.NewDDSketch(m, pk.New(), pk.New())
				for _, i := range []int{-128, -96, -64, -32, 0, 32, 64, 96} { // eight adjacent pages: every slot of the page table in use
					rcl.GetPositiveValueStore().AddWithCount(i, 2)
					rcl.GetNegativeValueStore().AddWithCount(i, 2)
				}
				rcl.Clear()
				err := rcl.DecodeAndMergeWith(stream)
				exp := NewSkModel(pk, ms, m)
				for _, k := range sortedKeys(c.Pos) {
					exp.Pos.Add(k, c.Pos[k])
				}
				for _, k := range sortedKeys(c.Neg) {
					exp.Neg.Add(k, c.Neg[k])
				}
				exp.Zero = c.Zero
				if err != nil || SketchContent(rcl) != exp.Content() {
					fails = append(fails, mc.Fail{Clause: "C07.accepts-valid-streams", Detail: fmt.Sprintf("stream % x merged into a cleared paginated receiver that had pages: err=%v want %s", stream, err, exp.Content())})
				}
			}
			if history[1] == "P-with-100-buffered" || history[1] == "any" {
				pk := Kind{K: 'P'}
				rc := ddsketch.NewDDSketch(m, pk.New(), pk.New())
				exp := NewSkModel(pk, ms, m)
				for j := 0; j < 100; j++ {
					v := m.Value(2000 + 3*j)
					rc.Add(v)
					rc.Add(-v)
					exp.Add(v, 1)
					exp.Add(-v, 1)
				}
				err := rc.DecodeAndMergeWith(stream)
				for _, k := range sortedKeys(c.Pos) {
					exp.Pos.Add(k, c.Pos[k])
				}
				for _, k := range sortedKeys(c.Neg) {
					exp.Neg.Add(k, c.Neg[k])
				}
				exp.Zero = c.Zero
				if err != nil || SketchContent(rc) != exp.Content() {
					fails = append(fails, mc.Fail{Clause: "C07.accepts-valid-streams", Detail: fmt.Sprintf("stream % x merged into a paginated receiver holding 100 scattered unit entries per side: err=%v want %s", stream, err, exp.Content())})
				}
			}
			return fails, nil
		}})
	}
	return shards
}

// grammarCutShards: every strict prefix of every single-block stream of the
// grammar (blocks the implementation itself never writes included: zero bins,
// negative strides, repeated indexes) must be refused by every target kind.
func grammarCutShards() []mc.Shard {
	const nsh = 4
	var out []mc.Shard
	for sh := 0; sh < nsh; sh++ {
		sh := sh
		name := fmt.Sprintf("C08/grammar-cuts/%d-of-%d", sh+1, nsh)
		run := func(only string) *mc.Result {
			res := &mc.Result{Scenario: name, Property: "C08", Exhaustive: true}
			ms := MapSpec{Kind: 'G', Alpha: 0.02}
			m := ms.New()
			distinct := map[string]struct{}{}
			for i, b := range grammarBlocks() {
				if i%nsh != sh || b.far {
					continue
				}
				for t := 1; t < len(b.bytes); t++ {
					prefix := b.bytes[:t:t]
					key := fmt.Sprintf("% x", prefix)
					if only != "" && only != key {
						continue
					}
					distinct[key] = struct{}{}
					for _, k := range codecTargets {
						mc.ProgressInput("decoding the cut stream", prefix, 0)
						res.Evaluations++
						func() {
							defer func() {
								if r := recover(); r != nil {
									res.Violations = append(res.Violations, mc.Violation{Property: "C08", Clause: "C08.no-panic", Scenario: name, Seed: "stream", History: []string{key},
										Detail: fmt.Sprintf("decoding the block % x cut after %d bytes into %s stores panicked: %v", b.bytes, t, k, r)})
								}
							}()
							if _, err := ddsketch.DecodeDDSketch(prefix, k.Provider(), m); err == nil {
								res.Violations = append(res.Violations, mc.Violation{Property: "C08", Clause: "C08.no-silent-truncation", Scenario: name, Seed: "stream", History: []string{key},
									Detail: fmt.Sprintf("the well-formed block % x cut after %d bytes (inside the block) was decoded into %s stores without error", b.bytes, t, k)})
							}
						}()
						if len(res.Violations) > 3 {
							res.Violations = res.Violations[:3]
						}
					}
				}
			}
			res.Distinct = int64(len(distinct))
			res.States, res.Transitions = res.Evaluations, res.Evaluations
			res.Count("truncations", res.Evaluations)
			res.Samples = []string{"block 0d 02 3e 41 00 00 cut after 1..5 bytes, into D S P L3 H3"}
			return res
		}
		out = append(out, mc.Shard{Name: name, Weight: 50, Run: func(time.Time) *mc.Result { return run("") },
			Replay: func(_ string, history []string) ([]mc.Fail, error) {
				if len(history) == 0 {
					return nil, fmt.Errorf("a grammar-cut replay needs the cut stream")
				}
				var fails []mc.Fail
				for _, v := range run(history[0]).Violations {
					fails = append(fails, mc.Fail{Clause: v.Clause, Detail: v.Detail})
				}
				return fails, nil
			}})
	}
	return out
}

// mismatchShard: every ordered pair of distinct mappings as (receiver, stream).
func mismatchShard(tier string) mc.Shard {
	name := "C08/mapping-mismatch"
	run := func(report bool) (*mc.Result, []mc.Fail) {
		res := &mc.Result{Scenario: name, Property: "C08", Exhaustive: true}
		var fails []mc.Fail
		grid := mapGrid("thorough")
		for _, a := range grid {
			for _, b := range grid {
				if a == b {
					continue
				}
				for _, exact := range []bool{false, true} {
					for _, k := range []Kind{{K: 'D'}, {K: 'P'}} {
						src := NewSkSlot(b.New(), k, exact)
						src.Q().Add(3)
						src.Q().Add(-0.2)
						enc := encodeOf(src.Q(), false)
						recv := NewSkSlot(a.New(), k, exact)
						recv.Q().Add(1)
						res.Evaluations += 2
						if err := recv.Q().DecodeAndMergeWith(enc); err == nil {
							fails = append(fails, mc.Fail{Clause: "C08.mapping-mismatch", Detail: fmt.Sprintf("a %s receiver accepted the encoding of a %s sketch (exact=%v)", a, b, exact)})
						}
						if _, err := DecodeSlot(enc, k, exact, a.New()); err == nil {
							fails = append(fails, mc.Fail{Clause: "C08.mapping-mismatch", Detail: fmt.Sprintf("decoding the encoding of a %s sketch with the supplied mapping %s succeeded (exact=%v)", b, a, exact)})
						}
						// the mismatching mapping is not the last one of the stream: the encoding of
						// a sketch of the receiver's own mapping follows it
						own := NewSkSlot(a.New(), k, exact)
						own.Q().Add(2)
						cat := append(append([]byte{}, enc...), encodeOf(own.Q(), false)...)
						recv2 := NewSkSlot(a.New(), k, exact)
						recv2.Q().Add(1)
						res.Evaluations += 2
						if err := recv2.Q().DecodeAndMergeWith(cat); err == nil {
							fails = append(fails, mc.Fail{Clause: "C08.mapping-mismatch", Detail: fmt.Sprintf("a %s receiver accepted the encoding of a %s sketch followed by the encoding of a %s sketch (exact=%v)", a, b, a, exact)})
						}
						if _, err := DecodeSlot(cat, k, exact, nil); err == nil {
							fails = append(fails, mc.Fail{Clause: "C08.mapping-mismatch", Detail: fmt.Sprintf("a stream holding the encoding of a %s sketch followed by that of a %s sketch decoded without error (exact=%v)", b, a, exact)})
						}
					}
				}
			}
			// mismatch in the index offset only, after a successful decode of the
			// receiver's own mapping (decoders must not remember earlier streams)
			am := a.New()
			g, o := mapParams(am)
			for _, d1 := range []float64{0, 1, 0.5} {
				for _, d2 := range []float64{0, 1, 0.5, -3} {
					if d1 == d2 {
						continue
					}
					sa := MapSpec{Kind: a.Kind, Gamma: g, Offset: o + d1}
					sb := MapSpec{Kind: a.Kind, Gamma: g, Offset: o + d2}
					for _, exact := range []bool{false, true} {
						recv := NewSkSlot(sa.New(), Kind{K: 'P'}, exact)
						own := NewSkSlot(sa.New(), Kind{K: 'D'}, exact)
						own.Q().Add(2)
						other := NewSkSlot(sb.New(), Kind{K: 'D'}, exact)
						other.Q().Add(2)
						res.Evaluations += 2
						if err := recv.Q().DecodeAndMergeWith(encodeOf(own.Q(), false)); err != nil {
							fails = append(fails, mc.Fail{Clause: "C08.mapping-mismatch", Detail: fmt.Sprintf("a %s receiver refused the encoding of a sketch with the same mapping: %v", sa, err)})
						}
						if err := recv.Q().DecodeAndMergeWith(encodeOf(other.Q(), false)); err == nil {
							fails = append(fails, mc.Fail{Clause: "C08.mapping-mismatch", Detail: fmt.Sprintf("a %s receiver accepted the encoding of a %s sketch (offset differs) after decoding a stream of its own mapping (exact=%v)", sa, sb, exact)})
						}
					}
				}
			}
			// mismatch in the kind only: the same base and index offset under another
			// interpolation (the payload of the mapping block is then byte for byte the same)
			for _, ok := range []byte{'G', 'I', 'C'} {
				if ok == a.Kind {
					continue
				}
				for _, d := range []float64{0, 2.5} {
					sa := MapSpec{Kind: a.Kind, Gamma: g, Offset: o + d}
					sb := MapSpec{Kind: ok, Gamma: g, Offset: o + d}
					for _, exact := range []bool{false, true} {
						recv := NewSkSlot(sa.New(), Kind{K: 'P'}, exact)
						recv.Q().Add(1)
						other := NewSkSlot(sb.New(), Kind{K: 'D'}, exact)
						other.Q().Add(2)
						res.Evaluations += 2
						if err := recv.Q().DecodeAndMergeWith(encodeOf(other.Q(), false)); err == nil {
							fails = append(fails, mc.Fail{Clause: "C08.mapping-mismatch", Detail: fmt.Sprintf("a %s receiver accepted the encoding of a %s sketch (same base and offset, another kind; exact=%v)", sa, sb, exact)})
						}
						if _, err := DecodeSlot(encodeOf(other.Q(), false), Kind{K: 'S'}, exact, sa.New()); err == nil {
							fails = append(fails, mc.Fail{Clause: "C08.mapping-mismatch", Detail: fmt.Sprintf("decoding the encoding of a %s sketch with the supplied mapping %s succeeded (same base and offset, another kind; exact=%v)", sb, sa, exact)})
						}
					}
				}
			}
			// no mapping in the stream and none supplied
			for _, exact := range []bool{false, true} {
				src := NewSkSlot(a.New(), Kind{K: 'S'}, exact)
				src.Q().Add(3)
				res.Evaluations++
				if _, err := DecodeSlot(encodeOf(src.Q(), true), Kind{K: 'D'}, exact, nil); err == nil {
					fails = append(fails, mc.Fail{Clause: "C08.missing-mapping", Detail: fmt.Sprintf("a stream of a %s sketch without mapping decoded with no mapping supplied (exact=%v)", a, exact)})
				}
			}
		}
		res.Distinct = res.Evaluations
		res.Samples = []string{"receiver log(0.1) <- DecodeAndMergeWith(encoding of a cub(0.1) sketch) must fail"}
		for i, f := range fails {
			if i < 3 {
				res.Violations = append(res.Violations, mc.Violation{Property: "C08", Clause: f.Clause, Scenario: name, Seed: "pairs", History: []string{f.Detail}, Detail: f.Detail})
			}
		}
		return res, fails
	}
	return mc.Shard{Name: name, Weight: 10, Run: func(time.Time) *mc.Result { r, _ := run(true); return r },
		Replay: func(string, []string) ([]mc.Fail, error) { _, f := run(false); return f, nil }}
}

// handBuiltProtoShard: messages mixing binCounts and contiguousBinCounts.
func handBuiltProtoShard() mc.Shard {
	name := "C09/hand-built-messages"
	run := func() (res *mc.Result, fails []mc.Fail) {
		res = &mc.Result{Scenario: name, Property: "C09", Exhaustive: true}
		defer func() {
			if r := recover(); r != nil {
				f := mc.Fail{Clause: "C09.no-panic", Detail: fmt.Sprintf("rebuilding a hand-built message panicked: %v\n%s", r, debug.Stack())}
				fails = append(fails, f)
				res.Violations = append(res.Violations, mc.Violation{Property: "C09", Clause: f.Clause, Scenario: name, Seed: "messages", History: []string{f.Detail}, Detail: f.Detail})
			}
		}()
		// zeros: leading, inner and trailing empty bins of a contiguous run; weights a hair
		// away from 1 (unit entries are special in the paginated store)
		weights := []float64{0.5, 0, 1, 0.1, 0, 1e300, 3, math.Nextafter(1, 2), 1 - 1e-13}
		keysets := [][]int32{{}, {-33}, {0}, {5}, {-33, 0}, {0, 5}, {-33, 0, 5}}
		offsets := []int32{-1, 0, 4}
		m, _ := mapping.NewLogarithmicMapping(0.02)
		distinct := map[string]struct{}{}
		for _, ks := range keysets {
			for wi := range weights {
				for _, off := range offsets {
					for n := 0; n <= 3; n++ {
						for wj := range weights {
							st := &sketchpb.Store{ContiguousBinIndexOffset: off}
							exp := map[int]float64{}
							if len(ks) > 0 {
								st.BinCounts = map[int32]float64{}
							}
							for i, k := range ks {
								c := weights[(wi+i)%len(weights)]
								st.BinCounts[k] = c
								if c != 0 {
									exp[int(k)] += c
								}
							}
							for i := 0; i < n; i++ {
								c := weights[(wj+i)%len(weights)]
								st.ContiguousBinCounts = append(st.ContiguousBinCounts, c)
								if c != 0 {
									exp[int(off)+i] += c
								}
							}
							msg := &sketchpb.DDSketch{Mapping: m.ToProto(), PositiveValues: st, NegativeValues: st, ZeroCount: 0.5}
							raw, _ := proto.Marshal(msg)
							var back sketchpb.DDSketch
							if err := proto.Unmarshal(raw, &back); err != nil {
								fails = append(fails, mc.Fail{Clause: "C09.mixed-bins-add-up", Detail: "unmarshal: " + err.Error()})
								continue
							}
							for _, t := range nonCollapsing {
								dec, err := ddsketch.FromProtoWithStoreProvider(&back, t.Provider())
								res.Evaluations++
								want := "zero=0.5 pos={" + ModelContent(&model.MapStore{M: exp}) + "} neg={" + ModelContent(&model.MapStore{M: exp}) + "}"
								if err != nil || SketchContent(dec) != want {
									got := fmt.Sprint(err)
									if err == nil {
										got = SketchContent(dec)
									}
									fails = append(fails, mc.Fail{Clause: "C09.mixed-bins-add-up", Detail: fmt.Sprintf("message %v rebuilt with %s stores\n  got:  %s\n  want: %s", msg, t, got, want)})
								}
								distinct[want] = struct{}{}
								// extremes and emptiness come from the non-empty bins only (a zero
								// count at the edge of a contiguous run is not a bin)
								if err == nil {
									ref := &model.MapStore{M: exp}
									lo, ok := ref.Min()
									hi, _ := ref.Max()
									for side, sd := range map[string]store.Store{"positive": dec.GetPositiveValueStore(), "negative": dec.GetNegativeValueStore()} {
										mn, e1 := sd.MinIndex()
										mx, e2 := sd.MaxIndex()
										if sd.IsEmpty() != !ok || (ok && (e1 != nil || e2 != nil || mn != lo || mx != hi)) || (!ok && (e1 == nil || e2 == nil)) {
											fails = append(fails, mc.Fail{Clause: "C09.mixed-bins-add-up", Detail: fmt.Sprintf("message %v rebuilt with %s stores: the %s store reports empty=%v min=%d (%v) max=%d (%v); its non-empty bins are %s", msg, t, side, sd.IsEmpty(), mn, e1, mx, e2, ModelContent(ref))})
										} else if ok && (sd.KeyAtRank(-1) != lo || sd.KeyAtRank(math.Inf(1)) != hi) {
											fails = append(fails, mc.Fail{Clause: "C09.mixed-bins-add-up", Detail: fmt.Sprintf("message %v rebuilt with %s stores: KeyAtRank(-1)=%d KeyAtRank(+Inf)=%d on the %s store whose non-empty bins are %s", msg, t, sd.KeyAtRank(-1), sd.KeyAtRank(math.Inf(1)), side, ModelContent(ref))})
										}
									}
									if ok {
										gmn, _ := dec.GetMinValue()
										gmx, _ := dec.GetMaxValue()
										if w := m.Value(hi); gmn != -w || gmx != w {
											fails = append(fails, mc.Fail{Clause: "C09.mixed-bins-add-up", Detail: fmt.Sprintf("message %v rebuilt with %s stores: min=%v max=%v, the extreme bins hold -/+%v", msg, t, gmn, gmx, w)})
										}
									}
								}
								// the generic and the store-specific merge entry points agree
								s2 := t.New()
								store.MergeWithProto(s2, st)
								if bp, ok := t.New().(*store.BufferedPaginatedStore); ok {
									bp.MergeWithProto(st)
									if StoreContent(bp) != StoreContent(s2) {
										fails = append(fails, mc.Fail{Clause: "C09.mixed-bins-add-up", Detail: fmt.Sprintf("BufferedPaginatedStore.MergeWithProto and store.MergeWithProto disagree on %v", st)})
									}
								}
							}
						}
					}
				}
			}
		}
		// both ends of the int32 index range (one end per message: array-backed and
		// paged stores cannot span both): runs that end exactly at MaxInt32 or start
		// exactly at MinInt32, with the same index also given sparsely
		for _, top := range []bool{true, false} {
			for n := 1; n <= 3; n++ {
				for _, sparse := range []bool{false, true} {
					edge := int32(math.MaxInt32)
					off := edge - int32(n) + 1
					if !top {
						edge = math.MinInt32
						off = edge
					}
					st := &sketchpb.Store{ContiguousBinIndexOffset: off}
					exp := map[int]float64{}
					for i := 0; i < n; i++ {
						c := []float64{2, 0.5, 1}[i]
						st.ContiguousBinCounts = append(st.ContiguousBinCounts, c)
						exp[int(off)+i] += c
					}
					if sparse {
						st.BinCounts = map[int32]float64{edge: 4}
						exp[int(edge)] += 4
					}
					msg := &sketchpb.DDSketch{Mapping: m.ToProto(), PositiveValues: st, ZeroCount: 0.5}
					raw, _ := proto.Marshal(msg)
					var back sketchpb.DDSketch
					if err := proto.Unmarshal(raw, &back); err != nil {
						fails = append(fails, mc.Fail{Clause: "C09.mixed-bins-add-up", Detail: "unmarshal: " + err.Error()})
						continue
					}
					for _, t := range []Kind{{K: 'S'}, {K: 'P'}} {
						dec, err := ddsketch.FromProtoWithStoreProvider(&back, t.Provider())
						res.Evaluations++
						want := "zero=0.5 pos={" + ModelContent(&model.MapStore{M: exp}) + "} neg={}"
						if err != nil || SketchContent(dec) != want {
							got := fmt.Sprint(err)
							if err == nil {
								got = SketchContent(dec)
							}
							fails = append(fails, mc.Fail{Clause: "C09.mixed-bins-add-up", Detail: fmt.Sprintf("message %v (indexes at the end of the int32 range) rebuilt with %s stores\n  got:  %s\n  want: %s", msg, t, got, want)})
						}
						distinct[want] = struct{}{}
					}
				}
			}
		}
		res.Distinct = int64(len(distinct))
		res.States, res.Transitions = res.Evaluations, res.Evaluations
		res.Samples = []string{"Store{BinCounts:{-33:0.5, 0:1}, ContiguousBinCounts:[0.1, 1e300], ContiguousBinIndexOffset:-1}"}
		for i, f := range fails {
			if i < 3 {
				res.Violations = append(res.Violations, mc.Violation{Property: "C09", Clause: f.Clause, Scenario: name, Seed: "messages", History: []string{f.Detail}, Detail: f.Detail})
			}
		}
		return res, fails
	}
	return mc.Shard{Name: name, Weight: 10, Run: func(time.Time) *mc.Result { r, _ := run(); return r },
		Replay: func(string, []string) ([]mc.Fail, error) { _, f := run(); return f, nil }}
}

// corpusSpecs: two-slot sketch worlds whose every reached state is a corpus
// member for the serialisation properties.
func corpusSpecs(prop, tier string, depthQ, depthT int, exactToo bool, check func(*SketchWorld, int) []mc.Fail, extra ...skOp) []*SketchScenarioSpec {
	var specs []*SketchScenarioSpec
	kinds := []Kind{{K: 'D'}, {K: 'S'}, {K: 'P'}, {K: 'L', N: 3}, {K: 'H', N: 4}}
	for _, ms := range mapGrid(tier) {
		for ki, k := range kinds {
			for _, exact := range []bool{false, true} {
				if exact && !exactToo {
					continue
				}
				if tier == "quick" && ms.Alpha != 0.1 && !(ki == 2 && !exact) {
					continue
				}
				m := ms.New()
				sp := &SketchScenarioSpec{Name: fmt.Sprintf("%s/%s/%s/exact=%v", prop, ms, k, exact), Property: prop, Map: ms,
					Stores: []Kind{k, kinds[(ki+2)%len(kinds)]}, Exact: exact, Depth: depthQ,
					Checks: []func(*SketchWorld, int) []mc.Fail{func(w *SketchWorld, slot int) []mc.Fail {
						if slot != 0 {
							return nil
						}
						return check(w, slot)
					}}}
				if tier == "thorough" {
					sp.Depth = depthT
				}
				addCorpusOps(sp, m, extra)
				specs = append(specs, sp)
			}
		}
	}
	// mappings as a decoder builds them (base and a non-default offset), and the
	// paginated store paired with itself (index-delta blocks decoded into a buffer)
	for _, k := range []byte{'G', 'I', 'C'} {
		ms := MapSpec{Kind: k, Gamma: 1.21, Offset: -2.5}
		sp := &SketchScenarioSpec{Name: fmt.Sprintf("%s/%s/P+P/exact=false", prop, ms), Property: prop, Map: ms,
			Stores: []Kind{{K: 'P'}, {K: 'P'}}, Depth: depthQ,
			Checks: []func(*SketchWorld, int) []mc.Fail{func(w *SketchWorld, slot int) []mc.Fail {
				if slot != 0 {
					return nil
				}
				return check(w, slot)
			}}}
		if tier == "thorough" {
			sp.Depth = depthT
		}
		addCorpusOps(sp, ms.New(), extra)
		sp.Ops = append(sp.Ops, skRead(0))
		specs = append(specs, sp)
	}
	return specs
}

func addCorpusOps(sp *SketchScenarioSpec, m mapping.IndexMapping, extra []skOp) {
	mn := m.MinIndexableValue()
	for _, v := range []float64{0, 1, -1, m.LowerBound(2), 7.3, -7.3, mn / 2, 1e4} {
		sp.Ops = append(sp.Ops, skAdd(0, v))
	}
	// 0.5 at two different values: fractional bins whose total equals the number of bins
	sp.Ops = append(sp.Ops, skAddW(0, 1, 0.5), skAddW(0, 7.3, 0.5), skAddW(0, -7.3, 2), skAddW(0, 0, 0.25), skAddW(0, 2.5, 1<<20), skAddRunV(0, 1.0, 70),
		skAdd(1, 1), skAdd(1, -7.3), skAddW(1, 0, 3), skAddW(1, 1e3, 3), skAddRunStride(1, 1.0, 100, 3),
		skMerge(0, 1), skClear(0), skReweight(0, 0.5), skCodec(0, 1, false, false), skReadEncode(0))
	sp.Ops = append(sp.Ops, extra...)
}

// skAddRunV: n unit additions of consecutive bins starting at v (macro: makes
// the paginated store compact and the dense store choose the contiguous layout).
func skAddRunV(s int, v float64, n int) skOp { return skAddRunStride(s, v, n, 1) }

// skAddRunStride: n unit additions, one every stride-th bin (scattered entries
// stay in the paginated store's buffer: no page ever gets 32 of them).
func skAddRunStride(s int, v float64, n, stride int) skOp {
	return skAddRunSigned(s, v, n, stride, 1)
}

// skAddRunSigned: the same with every value multiplied by sign (+1 or -1).
func skAddRunSigned(s int, v float64, n, stride int, sign float64) skOp {
	name := fmt.Sprintf("%s.AddRun(from %s, %d consecutive bins)", slotName(s), fstr(sign*v), n)
	if stride != 1 {
		name = fmt.Sprintf("%s.AddRun(from %s, %d bins, one every %d)", slotName(s), fstr(sign*v), n, stride)
	}
	return skOp{name: name, tag: "add", writes: 1 << uint(s),
		real: func(w *SketchWorld, st []*SkSlot, _ bool) {
			m := st[s].Mapping()
			i0 := m.Index(v)
			top := m.Index(m.MaxIndexableValue()) - 2
			for j := 0; j < n && i0+j*stride < top; j++ {
				must(st[s].Q().Add(sign*m.Value(i0+j*stride)), "AddRun")
			}
		},
		mod: func(w *SketchWorld) {
			m := w.M[s].Map
			i0 := m.Index(v)
			top := m.Index(m.MaxIndexableValue()) - 2
			for j := 0; j < n && i0+j*stride < top; j++ {
				w.M[s].Add(sign*m.Value(i0+j*stride), 1)
			}
		}}
}

func init() {
	mc.Register(&mc.Property{
		ID: "C06", Level: "model_checking",
		Rule:        "the corpus is every distinct state reached by an explicit-state BFS over two-slot sketch histories (five store kinds as producer, both variants); for each member: Encode with the mapping embedded and omitted, into a nil buffer and behind a 3-byte prefix with spare capacity; each encoding is decoded into five target store kinds and compared bin for bin with the reference (folded for bounded targets); decode into a non-empty receiver is compared with MergeWith; enc(a)|enc(b)|enc(a) with the merge of the three; the producer's full observation must be identical before and after Encode; distinct_nontrivial counts distinct (contents, multisets)",
		Assumptions: []string{"dyadic weights (they survive the documented +1/-1 transform)"},
		Shards: func(tier string) []mc.Shard {
			return append(shardsOfSketchSpecs(corpusSpecs("C06", tier, 3, 4, true, checkC06)), c06RoundedTotalShards(tier)...)
		},
		ShardBudget: budget(240*time.Second, 12*time.Minute),
	})
	mc.Register(&mc.Property{
		ID: "C07", Level: "model_checking",
		Rule:        "direction 1: every encoding of the corpus (distinct states of an explicit-state BFS over sketch histories, five producer store kinds, both variants, mapping embedded and omitted) is parsed by refwire, an independent decoder written only from the format documentation, and must yield the same bins, zero weight, mapping parameters and statistics; the plain decoder must accept every encoding of the exact-statistics variant. Direction 2: every well-formed stream of the documented grammar within bounds (<= 2 store blocks of either sign, three bin layouts, N <= 3 bins, first index in {-33,0,31}, deltas/strides in {-33,-2,-1,0,1,2,33,1000}, counts incl. 0, repeated blocks and indexes, zero-count blocks, mapping block before/between/after or supplied) is decoded by the implementation into five store kinds and compared with what the documentation assigns; distinct_nontrivial counts distinct contents",
		Assumptions: []string{"refwire is trusted as a faithful reading of the comments in encoding/flag.go and encoding/encoding.go"},
		Shards: func(tier string) []mc.Shard {
			// non-dyadic weights give nine-byte count blocks (both decoders must frame them alike)
			sh := shardsOfSketchSpecs(corpusSpecs("C07", tier, 3, 4, true, checkC07, skAddW(0, 3.3, 0.1), skAddW(0, -2.2, 1.0/3)))
			return append(sh, grammarShards(tier)...)
		},
		ShardBudget: budget(240*time.Second, 12*time.Minute),
	})
	mc.Register(&mc.Property{
		ID: "C08", Level: "fault_enumeration",
		Rule:        "faults are applied to every encoding of the corpus (distinct states of an explicit-state BFS over sketch histories; five producer store kinds; both variants; mapping embedded and omitted): EVERY cut point 0 <= t < len decoded by three consumer store kinds (and into a non-empty receiver) - strictly inside a block (per refwire's block boundaries) must be an error, on a boundary must succeed with exactly the content of the complete blocks (or fail for lack of a mapping); every one of the 240 undefined flag bytes substituted at every block boundary (once per distinct flag sequence) must be an error; every ordered pair of distinct mappings as (receiver, stream) must be an error; no panic anywhere; evaluations counts corpus states, counters give the numbers of truncations and substitutions; distinct_nontrivial counts distinct (contents, multisets)",
		Assumptions: []string{"block boundaries are those of refwire (the independent decoder of C07)", "the flags for quadratic and quartic interpolation are defined by the documentation but not implemented: they are neither substituted nor required to decode"},
		Shards: func(tier string) []mc.Shard {
			// weights with a full significand encode on nine bytes (every byte of the
			// longest varfloat is then a cut point); C08 compares with refwire, not with
			// the reference weights, so they need not survive the +1/-1 transform
			sh := shardsOfSketchSpecs(corpusSpecs("C08", tier, 3, 4, true, checkC08, skAddW(0, 3.3, 0.1), skAddW(0, -2.2, 1.0/3)))
			return append(append(sh, mismatchShard(tier)), grammarCutShards()...)
		},
		ShardBudget: budget(240*time.Second, 12*time.Minute),
	})
	mc.Register(&mc.Property{
		ID: "C09", Level: "model_checking",
		Rule:        "for every distinct state of an explicit-state BFS over plain-sketch histories (five producer store kinds): ToProto -> Marshal -> Unmarshal -> FromProtoWithStoreProvider for five target kinds must give the reference bins bit for bit and an equal mapping; the bytes of EncodeProto must unmarshal to a message proto.Equal to ToProto(); the corpus holds consecutive runs, scattered runs and short runs with holes (4 bins one every 2, 3 bins one every 3) so that both bin layouts of a message and the densities between them occur; one more shard enumerates hand-built messages mixing binCounts subsets of {-33,0,5} with contiguous runs (offset in {-1,0,4}, length <= 3, weights incl. 0.1 and 1e300) rebuilt with three store kinds; distinct_nontrivial counts distinct (contents, multisets)",
		Assumptions: []string{"at most two addends per index in hand-built messages, so float sums are order-independent"},
		Shards: func(tier string) []mc.Shard {
			// short runs with holes: the choice between binCounts and contiguousBinCounts
			// is a function of (span, number of bins), made once by ToProto and once by
			// the streaming writer; densities 4/7 and 3/7 sit between "all" and "scattered"
			sh := shardsOfSketchSpecs(corpusSpecs("C09", tier, 3, 4, false, checkC09, skAddRunStride(0, 1.0, 4, 2), skAddRunStride(0, 1.0, 3, 3)))
			return append(sh, handBuiltProtoShard())
		},
		ShardBudget: budget(240*time.Second, 12*time.Minute),
	})
	_ = math.Inf
}
