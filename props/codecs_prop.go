package props

import (
	"bytes"
	"errors"
	"fmt"
	"io"
	"math"
	"math/bits"
	"time"

	enc "github.com/DataDog/sketches-go/ddsketch/encoding"

	"verif/mc"
	"verif/model"
)

// --- independent readers (same reading of the documentation as refwire) ---

// isEndOfInput: "an end-of-input error" - io.EOF, io.ErrUnexpectedEOF, or an
// error wrapping one of them.
func isEndOfInput(err error) bool {
	return errors.Is(err, io.EOF) || errors.Is(err, io.ErrUnexpectedEOF)
}

func refUvarint(b []byte) (v uint64, n int, ok bool) {
	for i := 0; i < 9; i++ {
		if i >= len(b) {
			return 0, 0, false
		}
		c := b[i]
		if i == 8 {
			return v | uint64(c)<<56, 9, true
		}
		v |= uint64(c&0x7f) << (7 * uint(i))
		if c&0x80 == 0 {
			return v, i + 1, true
		}
	}
	return
}

func refVarint(b []byte) (int64, int, bool) {
	u, n, ok := refUvarint(b)
	if !ok {
		return 0, 0, false
	}
	if u&1 == 0 {
		return int64(u >> 1), n, true
	}
	return ^int64(u >> 1), n, true
}

func refVarfloat(b []byte) (float64, int, bool) {
	var x uint64
	shift := 57
	n := 0
	for i := 0; i < 9; i++ {
		if i >= len(b) {
			return 0, 0, false
		}
		c := b[i]
		n = i + 1
		if i == 8 {
			x |= uint64(c)
			break
		}
		x |= uint64(c&0x7f) << uint(shift)
		shift -= 7
		if c&0x80 == 0 {
			break
		}
	}
	return math.Float64frombits(bits.RotateLeft64(x, -6)+math.Float64bits(1)) - 1, n, true
}

type codecRun struct {
	res      *mc.Result
	name     string
	distinct int64
}

func (c *codecRun) fail(clause, format string, a ...any) {
	if len(c.res.Violations) >= 5 {
		return
	}
	d := fmt.Sprintf(format, a...)
	c.res.Violations = append(c.res.Violations, mc.Violation{Property: "C18", Clause: clause, Scenario: c.name, Seed: "input", History: []string{d}, Detail: d})
}

func sameFloat(a, b float64) bool {
	if math.IsNaN(a) || math.IsNaN(b) {
		return math.IsNaN(a) && math.IsNaN(b)
	}
	return math.Float64bits(a) == math.Float64bits(b)
}

// appendOnly: encoding behind an existing prefix, into spare capacity that holds
// stale bytes (a recycled buffer), must leave the prefix alone and append
// exactly the bytes a fresh buffer receives.
func (c *codecRun) appendOnly(what string, fresh []byte, encode func(b *[]byte)) {
	buf := make([]byte, 24)
	for i := range buf {
		buf[i] = 0xa5
	}
	buf[0], buf[1] = 0x17, 0xfe
	d := buf[:2]
	encode(&d)
	if len(d) != 2+len(fresh) || d[0] != 0x17 || d[1] != 0xfe || !bytes.Equal(d[2:], fresh) {
		c.fail("C18.append-only", "%s: into a fresh buffer % x, behind the prefix 17 fe with stale spare capacity % x", what, fresh, d)
	}
}

var paddings = [][]byte{nil, {0x00}, {0xff, 0x80, 0x01, 0xff, 0xff, 0xff, 0xff, 0xff, 0xff, 0xff}}

// checkEncodeU: one unsigned value through encoder, size function, decoder,
// paddings and every strict prefix.
func (c *codecRun) checkEncodeU(u uint64) {
	mc.ProgressInput("integer codecs on", nil, u)
	defer func() {
		if r := recover(); r != nil {
			c.fail("C18.no-panic", "encoding or decoding the integer %d (or its signed images) panicked: %v", u, r)
		}
	}()
	var b []byte
	enc.EncodeUvarint64(&b, u)
	c.res.Evaluations++
	n := len(b)
	if n < 1 || n > 9 || enc.Uvarint64Size(u) != n {
		c.fail("C18.size", "EncodeUvarint64(%d) wrote %d bytes, Uvarint64Size says %d", u, n, enc.Uvarint64Size(u))
		return
	}
	if n > 1 {
		c.distinct++
	}
	c.appendOnly(fmt.Sprintf("EncodeUvarint64(%d)", u), b, func(d *[]byte) { enc.EncodeUvarint64(d, u) })
	for _, pad := range paddings {
		in := append(append([]byte{}, b...), pad...)
		s := in
		v, err := enc.DecodeUvarint64(&s)
		if err != nil || v != u || len(s) != len(pad) || (len(pad) > 0 && &s[0] != &in[n]) {
			c.fail("C18.round-trip", "uvarint %d: encoded % x (+%d padding bytes) decoded to %d, err=%v, %d bytes left", u, b, len(pad), v, err, len(s))
			return
		}
	}
	for k := 0; k < n; k++ {
		s := b[:k:k]
		_, err := enc.DecodeUvarint64(&s)
		if !isEndOfInput(err) || len(s) != k {
			c.fail("C18.prefix-eof", "uvarint %d: the %d-byte prefix of % x gave err=%v and left %d bytes", u, k, b, err, len(s))
			return
		}
	}
	// signed: zig-zag image and both signs
	for _, sv := range []int64{int64(u), -int64(u), int64(u>>1) ^ -int64(u&1)} {
		var sb []byte
		enc.EncodeVarint64(&sb, sv)
		c.res.Evaluations++
		if len(sb) < 1 || len(sb) > 9 || enc.Varint64Size(sv) != len(sb) {
			c.fail("C18.size", "EncodeVarint64(%d) wrote %d bytes, Varint64Size says %d", sv, len(sb), enc.Varint64Size(sv))
			return
		}
		c.appendOnly(fmt.Sprintf("EncodeVarint64(%d)", sv), sb, func(d *[]byte) { enc.EncodeVarint64(d, sv) })
		for _, pad := range paddings[:2] {
			in := append(append([]byte{}, sb...), pad...)
			s := in
			v, err := enc.DecodeVarint64(&s)
			if err != nil || v != sv || len(s) != len(pad) {
				c.fail("C18.round-trip", "varint %d: encoded % x decoded to %d, err=%v, %d bytes left", sv, sb, v, err, len(s))
				return
			}
			s = in
			v32, err := enc.DecodeVarint32(&s)
			in32 := sv >= math.MinInt32 && sv <= math.MaxInt32
			if in32 && (err != nil || int64(v32) != sv || len(s) != len(pad)) {
				c.fail("C18.varint32", "DecodeVarint32 of %d (% x) gave %d, err=%v", sv, sb, v32, err)
				return
			}
			if !in32 && err == nil {
				c.fail("C18.varint32", "DecodeVarint32 accepted %d, which is outside 32 bits", sv)
				return
			}
		}
		for k := 0; k < len(sb); k++ {
			s := sb[:k:k]
			if _, err := enc.DecodeVarint64(&s); !isEndOfInput(err) || len(s) != k {
				c.fail("C18.prefix-eof", "varint %d: the %d-byte prefix of % x gave err=%v", sv, k, sb, err)
				return
			}
			s = sb[:k:k]
			if v32, err := enc.DecodeVarint32(&s); !isEndOfInput(err) || len(s) != k {
				c.fail("C18.prefix-eof", "DecodeVarint32 of the %d-byte prefix of % x (value %d) gave %d, err=%v", k, sb, sv, v32, err)
				return
			}
		}
	}
}

func (c *codecRun) checkEncodeF(f float64) {
	mc.ProgressInput("float codecs on the float with bits", nil, math.Float64bits(f))
	defer func() {
		if r := recover(); r != nil {
			c.fail("C18.no-panic", "encoding or decoding the float %v (bits %#x) panicked: %v", f, math.Float64bits(f), r)
		}
	}()
	var b []byte
	enc.EncodeVarfloat64(&b, f)
	c.res.Evaluations++
	n := len(b)
	if n < 1 || n > 9 || enc.Varfloat64Size(f) != n {
		c.fail("C18.size", "EncodeVarfloat64(%v) wrote %d bytes, Varfloat64Size says %d", f, n, enc.Varfloat64Size(f))
		return
	}
	if n > 1 {
		c.distinct++
	}
	c.appendOnly(fmt.Sprintf("EncodeVarfloat64(%v)", f), b, func(d *[]byte) { enc.EncodeVarfloat64(d, f) })
	want := (f + 1) - 1
	for _, pad := range paddings {
		in := append(append([]byte{}, b...), pad...)
		s := in
		v, err := enc.DecodeVarfloat64(&s)
		if err != nil || !sameFloat(v, want) || len(s) != len(pad) {
			c.fail("C18.round-trip", "varfloat %v (bits %#x): encoded % x decoded to %v, want (v+1)-1 = %v, err=%v, %d bytes left", f, math.Float64bits(f), b, v, want, err, len(s))
			return
		}
	}
	for k := 0; k < n; k++ {
		s := b[:k:k]
		if _, err := enc.DecodeVarfloat64(&s); !isEndOfInput(err) || len(s) != k {
			c.fail("C18.prefix-eof", "varfloat %v: the %d-byte prefix of % x gave err=%v", f, k, b, err)
			return
		}
	}
	var le []byte
	enc.EncodeFloat64LE(&le, f)
	c.res.Evaluations++
	if len(le) != 8 {
		c.fail("C18.size", "EncodeFloat64LE wrote %d bytes", len(le))
		return
	}
	c.appendOnly(fmt.Sprintf("EncodeFloat64LE(%v)", f), le, func(d *[]byte) { enc.EncodeFloat64LE(d, f) })
	for _, pad := range paddings[:2] {
		in := append(append([]byte{}, le...), pad...)
		s := in
		v, err := enc.DecodeFloat64LE(&s)
		if err != nil || math.Float64bits(v) != math.Float64bits(f) || len(s) != len(pad) {
			c.fail("C18.round-trip", "float64LE %v (bits %#x) decoded to bits %#x, err=%v", f, math.Float64bits(f), math.Float64bits(v), err)
			return
		}
	}
	for k := 0; k < 8; k++ {
		s := le[:k:k]
		if _, err := enc.DecodeFloat64LE(&s); !isEndOfInput(err) || len(s) != k {
			c.fail("C18.prefix-eof", "float64LE: the %d-byte prefix gave err=%v", k, err)
			return
		}
	}
}

// checkDecode: one byte string through all variable-length decoders, compared
// with the independent readers.
func (c *codecRun) checkDecode(in []byte) {
	mc.ProgressInput("decoders on the byte string", in, 0)
	defer func() {
		if r := recover(); r != nil {
			c.fail("C18.no-panic", "decoding % x panicked: %v", in, r)
		}
	}()
	c.res.Evaluations++
	{
		s := in
		v, err := enc.DecodeUvarint64(&s)
		rv, rn, ok := refUvarint(in)
		if ok {
			if rn > 1 {
				c.distinct++
			}
			if err != nil || v != rv || len(in)-len(s) != rn {
				c.fail("C18.decode", "DecodeUvarint64(% x) = %d, err=%v, consumed %d; the documented format reads %d from %d bytes", in, v, err, len(in)-len(s), rv, rn)
			}
		} else if !isEndOfInput(err) || len(s) != len(in) {
			c.fail("C18.prefix-eof", "DecodeUvarint64 of the incomplete string % x gave err=%v and consumed %d bytes", in, err, len(in)-len(s))
		}
	}
	{
		s := in
		v, err := enc.DecodeVarint64(&s)
		rv, rn, ok := refVarint(in)
		if ok {
			if err != nil || v != rv || len(in)-len(s) != rn {
				c.fail("C18.decode", "DecodeVarint64(% x) = %d, err=%v, consumed %d; the documented format reads %d from %d bytes", in, v, err, len(in)-len(s), rv, rn)
			}
			s2 := in
			v32, err := enc.DecodeVarint32(&s2)
			in32 := rv >= math.MinInt32 && rv <= math.MaxInt32
			if in32 && (err != nil || int64(v32) != rv || len(in)-len(s2) != rn) {
				c.fail("C18.varint32", "DecodeVarint32(% x) = %d, err=%v; value %d", in, v32, err, rv)
			}
			if !in32 && err == nil {
				c.fail("C18.varint32", "DecodeVarint32(% x) accepted %d", in, rv)
			}
		} else {
			if !isEndOfInput(err) || len(s) != len(in) {
				c.fail("C18.prefix-eof", "DecodeVarint64 of the incomplete string % x gave err=%v", in, err)
			}
			s2 := in
			if v32, err := enc.DecodeVarint32(&s2); !isEndOfInput(err) || len(s2) != len(in) {
				c.fail("C18.prefix-eof", "DecodeVarint32 of the incomplete string % x gave %d, err=%v and consumed %d bytes", in, v32, err, len(in)-len(s2))
			}
		}
	}
	{
		s := in
		v, err := enc.DecodeVarfloat64(&s)
		rv, rn, ok := refVarfloat(in)
		if ok {
			if err != nil || !sameFloat(v, rv) || len(in)-len(s) != rn {
				c.fail("C18.decode", "DecodeVarfloat64(% x) = %v, err=%v, consumed %d; the documented format reads %v from %d bytes", in, v, err, len(in)-len(s), rv, rn)
			}
		} else if !isEndOfInput(err) || len(s) != len(in) {
			c.fail("C18.prefix-eof", "DecodeVarfloat64 of the incomplete string % x gave err=%v", in, err)
		}
	}
}

func interestingU(visit func(uint64)) {
	for k := 0; k <= 64; k++ {
		var base uint64
		if k < 64 {
			base = 1 << uint(k)
		}
		for d := -3; d <= 3; d++ {
			visit(base + uint64(int64(d)))
		}
	}
	for i := 0; i < 64; i++ {
		for j := i; j < 64; j++ {
			visit(1<<uint(i) | 1<<uint(j))
		}
	}
	for x := uint64(1); x < 1<<12; x += 37 {
		for s := 0; s <= 52; s += 4 {
			visit(x << uint(s))
		}
	}
	visit(math.MaxUint64)
	visit(0)
}

func codecShards(tier string) []mc.Shard {
	var shards []mc.Shard
	mk := func(name string, weight int, run func(c *codecRun, deadline time.Time)) {
		shards = append(shards, mc.Shard{Name: name, Weight: weight, Run: func(deadline time.Time) *mc.Result {
			start := time.Now()
			c := &codecRun{res: &mc.Result{Scenario: name, Property: "C18", Exhaustive: true}, name: name}
			run(c, deadline)
			c.res.Distinct = c.distinct
			c.res.WallS = time.Since(start).Seconds()
			return c.res
		}, Replay: func(string, []string) ([]mc.Fail, error) {
			c := &codecRun{res: &mc.Result{Scenario: name}, name: name}
			run(c, time.Now().Add(10*time.Minute))
			var fails []mc.Fail
			for _, v := range c.res.Violations {
				fails = append(fails, mc.Fail{Clause: v.Clause, Detail: v.Detail})
			}
			return fails, nil
		}})
	}
	// encoders: all u < 2^24 in 8 chunks, plus the structured values
	for ch := 0; ch < 8; ch++ {
		ch := ch
		mk(fmt.Sprintf("C18/encode/u<2^24/%d", ch), 200, func(c *codecRun, _ time.Time) {
			for u := uint64(ch) << 21; u < uint64(ch+1)<<21; u++ {
				c.checkEncodeU(u)
				if u&7 == 0 {
					c.checkEncodeF(float64(u))
					c.checkEncodeF(math.Float64frombits(u << 40))
				}
			}
			c.res.Samples = []string{fmt.Sprintf("EncodeUvarint64(%d), EncodeVarint64(+-%d), EncodeVarfloat64(%d)", uint64(ch)<<21+77, uint64(ch)<<21+77, uint64(ch)<<21+72)}
		})
	}
	mk("C18/encode/structured", 50, func(c *codecRun, _ time.Time) {
		interestingU(func(u uint64) {
			c.checkEncodeU(u)
			c.checkEncodeF(math.Float64frombits(u))
			c.checkEncodeF(float64(u))
			c.checkEncodeF(-float64(u))
		})
		for _, f := range []float64{math.NaN(), math.Inf(1), math.Inf(-1), 5e-324, -5e-324, math.SmallestNonzeroFloat64 * 3, math.MaxFloat64, -math.MaxFloat64,
			1 << 53, 1<<53 + 2, 1<<53 - 2, 1<<53 - 1, 0.5, 0.1, 1e300, -1, -0.5, -2, math.Copysign(0, -1), 1.5, 3, 0.0009765625} {
			c.checkEncodeF(f)
		}
		for i := 0; i < 256; i++ {
			var b []byte
			f := enc.NewFlag(enc.FlagType{}, enc.SubFlag{})
			_ = f
			in := []byte{byte(i), 0xaa}
			s := in
			fl, err := enc.DecodeFlag(&s)
			c.res.Evaluations++
			if err != nil || len(s) != 1 {
				c.fail("C18.flag", "DecodeFlag(% x): err=%v, %d bytes left", in, err, len(s))
				continue
			}
			enc.EncodeFlag(&b, fl)
			if len(b) != 1 || b[0] != byte(i) {
				c.fail("C18.flag", "flag byte %#02x round-trips to % x", i, b)
			}
		}
		func() {
			defer func() {
				if r := recover(); r != nil {
					c.fail("C18.no-panic", "DecodeFlag of an empty slice panicked: %v", r)
				}
			}()
			var e []byte
			if _, err := enc.DecodeFlag(&e); !isEndOfInput(err) {
				c.fail("C18.flag", "DecodeFlag of an empty slice gave %v", err)
			}
		}()
		c.res.Samples = []string{"2^k+d for k<=64,|d|<=3; all values with <=2 set bits; x*2^s; NaN, +-Inf, subnormals, 2^53+-2; all 256 flag bytes"}
	})
	// decoders: all byte strings up to length 3 (4 in the thorough tier), by first byte
	maxLen := 3
	if tier == "thorough" {
		maxLen = 4
	}
	for ch := 0; ch < 16; ch++ {
		ch := ch
		mk(fmt.Sprintf("C18/decode/all-strings<=%d/%x_", maxLen, ch), 300, func(c *codecRun, deadline time.Time) {
			buf := make([]byte, 0, 16)
			var rec func(depth int)
			rec = func(depth int) {
				c.checkDecode(buf)
				if depth == maxLen {
					return
				}
				for b := 0; b < 256; b++ {
					if depth == 0 && b>>4 != ch {
						continue
					}
					buf = append(buf, byte(b))
					rec(depth + 1)
					buf = buf[:len(buf)-1]
				}
			}
			rec(0)
			c.res.Samples = []string{fmt.Sprintf("% x", []byte{byte(ch << 4), 0x80, 0x01})}
		})
	}
	// boundary-alphabet strings up to length 10 and one free byte at each position
	alpha := []byte{0x00, 0x01, 0x7f, 0x80, 0x81, 0xff}
	for ai, first := range alpha {
		ai, first := ai, first
		mk(fmt.Sprintf("C18/decode/boundary-strings/%02x", first), 250, func(c *codecRun, deadline time.Time) {
			lim := 8
			letters := alpha
			if tier == "thorough" {
				lim = 10
			}
			buf := []byte{first}
			var rec func()
			rec = func() {
				c.checkDecode(buf)
				// independence from bytes at positions >= 9 and from padding
				if len(buf) >= 9 {
					alt := append(append([]byte{}, buf[:9]...), 0x55, 0xaa)
					s1, s2 := buf, alt
					v1, e1 := enc.DecodeUvarint64(&s1)
					v2, e2 := enc.DecodeUvarint64(&s2)
					if v1 != v2 || (e1 == nil) != (e2 == nil) || len(buf)-len(s1) > 9 {
						c.fail("C18.nine-bytes", "DecodeUvarint64 of % x depends on bytes beyond the ninth", buf)
					}
				}
				if len(buf) >= lim {
					return
				}
				for _, l := range letters {
					buf = append(buf, l)
					rec()
					buf = buf[:len(buf)-1]
				}
			}
			rec()
			// long strings over the continuation letters with one free byte
			if ai == 3 || ai == 5 {
				for n := 9; n <= 12; n++ {
					base := bytes.Repeat([]byte{first}, n)
					for pos := 0; pos < n; pos++ {
						for b := 0; b < 256; b++ {
							s := append([]byte{}, base...)
							s[pos] = byte(b)
							c.checkDecode(s)
							t := s
							if _, err := enc.DecodeVarfloat64(&t); err == nil && len(s)-len(t) > 9 {
								c.fail("C18.nine-bytes", "DecodeVarfloat64 consumed %d bytes of % x", len(s)-len(t), s)
							}
						}
					}
				}
			}
			c.res.Samples = []string{fmt.Sprintf("% x", []byte{first, 0x80, 0xff, 0x7f, 0x81})}
		})
	}
	_ = model.AppendUvarint
	return shards
}

func init() {
	mc.Register(&mc.Property{
		ID: "C18", Level: "exploration",
		Rule:        "exhaustive enumeration, no sampling. Encoders: every unsigned value below 2^24, every 2^k+d (k<=64, |d|<=3), every value with at most two set bits, x*2^s (x<2^12), their zig-zag / negated images for the signed codec, and as float bit patterns and as float values (plus NaN, infinities, subnormals, 2^53+-2, negatives) - each through encoder, size function, decoder with three trailing paddings, and every strict prefix. Decoders: EVERY byte string of length <= 3 (<= 4 in the thorough tier), every string of length <= 8 (10) over {00,01,7f,80,81,ff}, and strings of length 9..12 of continuation bytes with one free byte at each position - each through the four variable-length decoders and compared with independent readers written from the documentation (value, bytes consumed, io.EOF with the slice untouched for incomplete strings, at most 9 bytes read, int32 range check). All 256 flag bytes. A case is non-trivial when its encoding is longer than one byte; distinct_nontrivial counts them",
		Assumptions: []string{"the independent readers are a faithful reading of the comments in encoding/encoding.go"},
		Shards:      codecShards,
		ShardBudget: budget(240*time.Second, 14*time.Minute),
	})
}
