package props

import (
	"errors"
	"fmt"
	"math"
	"math/big"
	"runtime/debug"
	"sort"
	"time"

	"github.com/DataDog/sketches-go/ddsketch"
	"github.com/DataDog/sketches-go/ddsketch/mapping"
	"github.com/DataDog/sketches-go/ddsketch/pb/sketchpb"
	"github.com/DataDog/sketches-go/ddsketch/stat"
	"github.com/DataDog/sketches-go/ddsketch/store"

	"verif/mc"
	"verif/model"
)

// skChangeMap: a = b.ChangeMapping(target, store kind of a, scale). The bins
// of the result are not predicted by the reference (C17 judges them); values
// and exact statistics are rescaled.
func skChangeMap(a, b int, target MapSpec, scale float64) skOp {
	return skOp{name: fmt.Sprintf("%s = %s.ChangeMapping(%s, scale=%s)", slotName(a), slotName(b), target, fstr(scale)), tag: "changemapping", writes: 1 << uint(a),
		real: func(w *SketchWorld, st []*SkSlot, _ bool) {
			st[a] = st[b].ChangeMapping(target.New(), st[a].Store, scale)
		},
		mod: func(w *SketchWorld) {
			c := w.M[b].CopyFor(w.S[a].Store)
			c.Approx = true
			c.Spec, c.Map = target, target.New()
			for i := range c.Ent {
				c.Ent[i].V *= scale
				if a := math.Abs(c.Ent[i].V); a != 0 && (a < 4*c.Map.MinIndexableValue() || a > c.Map.MaxIndexableValue()/4) {
					c.Off = true
				}
				if a := math.Abs(w.M[b].Ent[i].V); a != 0 && a < 4*w.M[b].Map.MinIndexableValue() {
					c.Off = true // a source value in (or next to) the zero bucket: its bin is at the edge of the range
				}
			}
			w.M[a] = c
		}}
}

// skAddIgnored: an addition that must be refused (or, with weight 0, must
// change nothing): the reference is left untouched whatever the call returns.
func skAddIgnored(s int, v, c float64) skOp {
	return skOp{name: fmt.Sprintf("%s.AddWithCount(%s, %s) [no effect expected]", slotName(s), fstr(v), fstr(c)), tag: "refused",
		real: func(_ *SketchWorld, st []*SkSlot, _ bool) { st[s].Q().AddWithCount(v, c) },
		mod:  func(*SketchWorld) {}}
}

// skAddMany: n unit additions of the same value (macro). A sum kept by plain
// accumulation drifts by about n/6 ulps; the documented bound is a few ulps.
// The reference records one entry of weight n (the same multiset).
func skAddMany(s int, v float64, n int) skOp {
	return skOp{name: fmt.Sprintf("%s.Add(%s) x %d", slotName(s), fstr(v), n), tag: "add", writes: 1 << uint(s),
		real: func(_ *SketchWorld, st []*SkSlot, _ bool) {
			q := st[s].Q()
			for i := 0; i < n; i++ {
				must(q.Add(v), "Add of a trackable value refused")
			}
		},
		mod: func(w *SketchWorld) { w.M[s].Add(v, float64(n)) }}
}

// skReweightRefused: a.Reweight(0) is refused and changes nothing.
func skReweightRefused(s int) skOp {
	return skOp{name: fmt.Sprintf("%s.Reweight(0) [refused, no effect expected]", slotName(s)), tag: "refused",
		real: func(_ *SketchWorld, st []*SkSlot, _ bool) { st[s].Q().Reweight(0) },
		mod:  func(*SketchWorld) {}}
}

// skMergeRefused: a.MergeWith(non-empty sketch of another mapping kind). The
// call is refused; the reference is left untouched whatever it returns.
func skMergeRefused(s int) skOp {
	return skOp{name: fmt.Sprintf("%s.MergeWith(a non-empty sketch of another mapping) [refused, no effect expected]", slotName(s)), tag: "refused",
		real: func(w *SketchWorld, st []*SkSlot, _ bool) {
			other := NewSkSlot(otherMapping(w.M[s].Spec), st[s].Store, st[s].Exact)
			other.Q().AddWithCount(250, 4)
			other.Q().Add(-0.01)
			st[s].MergeWith(other)
		},
		mod: func(*SketchWorld) {}}
}

// skDecodeRefusedThenClear: the exact-statistics variant is offered an encoding
// without statistics blocks (that of a plain sketch), which it refuses, and is
// then cleared. What a failed decode leaves behind is not specified (section 6),
// so the two steps form one operation: only the state after Clear is judged
// (in the twin world the sketch is replaced by a new one).
func skDecodeRefusedThenClear(s int) skOp {
	return skOp{name: fmt.Sprintf("%s.DecodeAndMergeWith(encoding of a plain sketch holding 2.5 and zeros) [refused by the exact variant]; %s.Clear()", slotName(s), slotName(s)), tag: "clear", writes: 1 << uint(s),
		real: func(w *SketchWorld, st []*SkSlot, twin bool) {
			if st[s].Exact {
				plain := ddsketch.NewDDSketch(st[s].Mapping(), st[s].Store.New(), st[s].Store.New())
				plain.Add(2.5)
				plain.AddWithCount(0, 3)
				var b []byte
				plain.Encode(&b, false)
				st[s].E.DecodeAndMergeWith(b)
			}
			if twin && !w.SkipReads {
				st[s] = NewSkSlot(st[s].Mapping(), st[s].Store, st[s].Exact)
			} else {
				st[s].Q().Clear()
			}
		},
		mod: func(w *SketchWorld) { w.M[s].Clear() }}
}

func bigSum(ent []Entry) (sum, abs float64) {
	var s, a big.Float
	s.SetPrec(2000)
	a.SetPrec(2000)
	for _, e := range ent {
		p := new(big.Float).SetPrec(2000).Mul(big.NewFloat(e.V), big.NewFloat(e.W))
		s.Add(&s, p)
		a.Add(&a, new(big.Float).Abs(p))
	}
	sum, _ = s.Float64()
	abs, _ = a.Float64()
	return
}

// checkC10: exact summary statistics after any history.
func checkC10(w *SketchWorld, slot int) (fails []mc.Fail) {
	sl := w.S[slot]
	if !sl.Exact {
		return
	}
	md := w.M[slot]
	if md.Off {
		return
	}
	fail := func(clause, format string, a ...any) {
		fails = append(fails, mc.Fail{Clause: clause, Detail: fmt.Sprintf("%s, %s store, absorbed %v: ", md.Spec, sl.Store, md.Ent) + fmt.Sprintf(format, a...)})
	}
	e := sl.E
	var total float64
	mn, mx := math.Inf(1), math.Inf(-1)
	for _, en := range md.Ent {
		total += en.W
		if en.W > 0 {
			mn, mx = math.Min(mn, en.V), math.Max(mx, en.V)
		}
	}
	if e.GetCount() != total {
		fail("C10.count", "GetCount()=%v, absorbed weight %v", e.GetCount(), total)
	}
	if e.IsEmpty() != (total == 0) {
		fail("C10.empty", "IsEmpty()=%v with absorbed weight %v", e.IsEmpty(), total)
	}
	if total == 0 {
		return
	}
	gmin, err1 := e.GetMinValue()
	gmax, err2 := e.GetMaxValue()
	if err1 != nil || err2 != nil || gmin != mn || gmax != mx {
		fail("C10.extremes", "min=%v (err %v) max=%v (err %v), exact extremes are %v and %v", gmin, err1, gmax, err2, mn, mx)
	}
	sum, abs := bigSum(md.Ent)
	// 16 ulps of the total of |value*weight|, plus 64 units of the smallest
	// subnormal (products of sub-minimum values are not relatively accurate)
	tol := 16*math.Ldexp(1, -53)*abs + 64*5e-324
	if d := math.Abs(e.GetSum() - sum); d > tol {
		fail("C10.sum", "GetSum()=%v, exact sum %v, error %v exceeds 16 ulps of the total of |value*weight| (%v)", e.GetSum(), sum, d, tol)
	} else if abs > 1e-300 {
		mc.Allow("C10 compensated sum", d/tol)
	}
	// the encoding of the plain sketch underneath carries no statistics: the
	// decoder of the exact variant must refuse it, or build a sketch that is
	// consistent with its bins (never "empty" while holding weight)
	var plainEnc []byte
	e.DDSketch.Encode(&plainEnc, false)
	if dec, err := ddsketch.DecodeDDSketchWithExactSummaryStatistics(plainEnc, sl.Store.Provider(), nil); err == nil {
		bins := dec.GetZeroCount() + dec.GetPositiveValueStore().TotalCount() + dec.GetNegativeValueStore().TotalCount()
		if dec.GetCount() != bins || dec.IsEmpty() != (bins == 0) {
			fail("C10.count", "the statistics-free encoding of the sketch underneath was accepted by the exact-variant decoder and gives count=%v empty=%v with bins of total weight %v", dec.GetCount(), dec.IsEmpty(), bins)
		}
	}
	// a batch in no particular order answers like the single queries
	if ub, err := e.GetValuesAtQuantiles([]float64{1, 0, 0.5, 0.01, 0.99}); err == nil {
		for i, p := range []float64{1, 0, 0.5, 0.01, 0.99} {
			if y, err := e.GetValueAtQuantile(p); err != nil || math.Float64bits(y) != math.Float64bits(ub[i]) {
				fail("C10.quantile", "GetValuesAtQuantiles([1 0 0.5 0.01 0.99]) answers %v; the single query at q=%v answers %v (err %v)", ub, p, y, err)
				break
			}
		}
	} else {
		fail("C10.quantile", "GetValuesAtQuantiles([1 0 0.5 0.01 0.99]) refused on a non-empty sketch: %v", err)
	}
	qs := []float64{0, 0.01, 0.25, 0.5, 0.75, 0.99, 1}
	batch, berr := e.GetValuesAtQuantiles(qs)
	for i, p := range qs {
		y, err := e.GetValueAtQuantile(p)
		plain, perr := e.DDSketch.GetValueAtQuantile(p)
		if err != nil || perr != nil {
			fail("C10.quantile", "q=%v refused on a non-empty sketch: %v / %v", p, err, perr)
			return
		}
		want := math.Min(math.Max(plain, mn), mx)
		if y != want || y < mn || y > mx {
			fail("C10.quantile", "q=%v answered %v; the plain sketch answers %v, exact extremes [%v, %v]", p, y, plain, mn, mx)
		}
		if berr != nil || batch[i] != y {
			fail("C10.quantile", "batch answer at q=%v differs from the single answer %v: %v (err %v)", p, y, batch, berr)
		}
	}
	return
}

// cumulative intervals of the distinct absorbed values
type cumIv struct{ x, a, b float64 }

func cumIntervals(ent []Entry) []cumIv {
	es := append([]Entry{}, ent...)
	sort.Slice(es, func(i, j int) bool { return es[i].V < es[j].V })
	var out []cumIv
	var c float64
	for _, e := range es {
		if e.W == 0 {
			continue
		}
		if n := len(out); n > 0 && out[n-1].x == e.V {
			out[n-1].b += e.W
		} else {
			out = append(out, cumIv{e.V, c, c + e.W})
		}
		c += e.W
	}
	return out
}

// checkC11: weighted quantiles only return absorbed values at the right rank.
func checkC11(w *SketchWorld, slot int) (fails []mc.Fail) {
	sl := w.S[slot]
	md := w.M[slot]
	q := sl.Q()
	ivs := cumIntervals(md.Ent)
	if len(ivs) == 0 {
		return
	}
	alpha := specAlpha(md.Spec, md.Map)
	W := ivs[len(ivs)-1].b
	gmin, _ := q.GetMinValue()
	gmax, _ := q.GetMaxValue()
	qs := []float64{0, 0.25, 0.5, 0.75, 1}
	if W != 1 {
		for _, iv := range ivs {
			for _, c := range []float64{iv.a, iv.b} {
				p := c / (W - 1)
				for _, x := range []float64{p, math.Nextafter(p, 0), math.Nextafter(p, 1)} {
					if x >= 0 && x <= 1 {
						qs = append(qs, x)
					}
				}
			}
		}
	}
	batch, berr := q.GetValuesAtQuantiles(qs)
	if db, derr := descendingBatch(q, qs); derr == nil && berr == nil {
		for qi := range qs {
			if math.Float64bits(db[qi]) != math.Float64bits(batch[qi]) {
				fails = append(fails, mc.Fail{Clause: "C11.batch", Detail: fmt.Sprintf("%s, %s store, absorbed (value,weight) %v: GetValuesAtQuantiles answers %v at q=%v when asked in descending order and %v in ascending order", md.Spec, sl.Store, md.Ent, db[qi], qs[qi], batch[qi])})
				return
			}
		}
	} else if (derr == nil) != (berr == nil) {
		fails = append(fails, mc.Fail{Clause: "C11.batch", Detail: fmt.Sprintf("%s, %s store: the batch query is refused in one order only (%v / %v)", md.Spec, sl.Store, berr, derr)})
		return
	}
	for qi, p := range qs {
		y, err := q.GetValueAtQuantile(p)
		if err != nil {
			fails = append(fails, mc.Fail{Clause: "C11.rank", Detail: fmt.Sprintf("q=%v refused on a sketch of total weight %v: %v", p, W, err)})
			return
		}
		if berr != nil || math.Float64bits(batch[qi]) != math.Float64bits(y) {
			// the batch query is judged through the single query: it must give the same answers
			fails = append(fails, mc.Fail{Clause: "C11.batch", Detail: fmt.Sprintf("%s, %s store, absorbed (value,weight) %v, total %v: GetValuesAtQuantiles answers %v at q=%v, GetValueAtQuantile answers %v (err %v)", md.Spec, sl.Store, md.Ent, W, batch, p, y, berr)})
			return
		}
		r := p * (W - 1)
		ok := false
		for _, iv := range ivs {
			d := 0.0
			if r < iv.a {
				d = iv.a - r
			} else if r > iv.b {
				d = r - iv.b
			}
			if d <= 1 && matchesValue(md.Map, alpha, y, iv.x, "C11 value accuracy") {
				ok = true
				break
			}
		}
		if !ok {
			fails = append(fails, mc.Fail{Clause: "C11.rank", Detail: fmt.Sprintf("%s, %s store, absorbed (value,weight) %v, total %v: q=%v (rank %v) answered %v, which is not within alpha of any absorbed value whose cumulative interval is within one unit of weight of the rank", md.Spec, sl.Store, md.Ent, W, p, r, y)})
			return
		}
		if y < gmin || y > gmax {
			fails = append(fails, mc.Fail{Clause: "C11.within-extremes", Detail: fmt.Sprintf("%s, %s store, absorbed %v: q=%v answered %v outside [min=%v, max=%v]", md.Spec, sl.Store, md.Ent, p, y, gmin, gmax)})
			return
		}
		if y < 0 && md.Neg.Empty() {
			fails = append(fails, mc.Fail{Clause: "C11.side", Detail: fmt.Sprintf("absorbed %v: q=%v answered the negative value %v but nothing negative was absorbed", md.Ent, p, y)})
		}
		if y > 0 && md.Pos.Empty() {
			fails = append(fails, mc.Fail{Clause: "C11.side", Detail: fmt.Sprintf("absorbed %v: q=%v answered the positive value %v but nothing positive was absorbed", md.Ent, p, y)})
		}
	}
	return
}

// ---- C13 ----

type refusedCall struct {
	name string
	call func(sl *SkSlot, w *SketchWorld) error
	want error // identity for exported errors; nil = any non-nil error
}

func specOfSlot(w *SketchWorld, sl *SkSlot) MapSpec {
	for i := range w.S {
		if w.S[i] == sl {
			return w.M[i].Spec
		}
	}
	return w.Spec
}

func otherMapping(s MapSpec) mapping.IndexMapping {
	o := s
	if s.Kind == 'G' {
		o.Kind = 'C'
	} else {
		o.Kind = 'G'
	}
	return o.New()
}

func refusedMenu(m mapping.IndexMapping) []refusedCall {
	mx := m.MaxIndexableValue()
	add := func(v, c float64, want error) refusedCall {
		return refusedCall{name: fmt.Sprintf("AddWithCount(%s, %s)", fstr(v), fstr(c)), want: want,
			call: func(sl *SkSlot, _ *SketchWorld) error { return sl.Q().AddWithCount(v, c) }}
	}
	add1 := func(v float64, want error) refusedCall {
		return refusedCall{name: fmt.Sprintf("Add(%s)", fstr(v)), want: want,
			call: func(sl *SkSlot, _ *SketchWorld) error { return sl.Q().Add(v) }}
	}
	quant := func(p float64) refusedCall {
		return refusedCall{name: fmt.Sprintf("GetValueAtQuantile(%s)", fstr(p)),
			call: func(sl *SkSlot, _ *SketchWorld) error { _, err := sl.Q().GetValueAtQuantile(p); return err }}
	}
	quants := func(p float64) refusedCall {
		return refusedCall{name: fmt.Sprintf("GetValuesAtQuantiles([0.5, %s])", fstr(p)),
			call: func(sl *SkSlot, _ *SketchWorld) error {
				vs, err := sl.Q().GetValuesAtQuantiles([]float64{0.5, p})
				if err != nil && vs != nil {
					return nil // an error must come without values
				}
				return err
			}}
	}
	rew := func(f float64) refusedCall {
		return refusedCall{name: fmt.Sprintf("Reweight(%s)", fstr(f)),
			call: func(sl *SkSlot, _ *SketchWorld) error { return sl.Q().Reweight(f) }}
	}
	var out []refusedCall
	for _, c := range []float64{1, 0, 0.5} {
		out = append(out, add(math.NaN(), c, ddsketch.ErrUntrackableNaN),
			add(math.Inf(1), c, ddsketch.ErrUntrackableTooHigh), add(math.Inf(-1), c, ddsketch.ErrUntrackableTooLow),
			add(math.MaxFloat64, c, ddsketch.ErrUntrackableTooHigh), add(-math.MaxFloat64, c, ddsketch.ErrUntrackableTooLow),
			add(math.Nextafter(mx, math.Inf(1)), c, ddsketch.ErrUntrackableTooHigh), add(-math.Nextafter(mx, math.Inf(1)), c, ddsketch.ErrUntrackableTooLow))
	}
	out = append(out, add1(math.NaN(), ddsketch.ErrUntrackableNaN), add1(math.Inf(1), ddsketch.ErrUntrackableTooHigh), add1(-math.MaxFloat64, ddsketch.ErrUntrackableTooLow))
	for _, v := range []float64{1, 0, -7.3, math.NaN()} {
		for _, c := range []float64{-0.0009765625, -1, math.Inf(-1)} {
			want := ddsketch.ErrNegativeCount
			if math.IsNaN(v) {
				want = nil // both arguments are invalid: either documented error corresponds
			}
			out = append(out, add(v, c, want))
		}
	}
	for _, p := range []float64{math.NaN(), -5e-324, math.Nextafter(1, 2), -1, 2, math.Inf(1), math.Inf(-1)} {
		out = append(out, quant(p), quants(p))
	}
	for _, f := range []float64{0, math.Copysign(0, -1), -1, -0.5, math.Inf(-1)} {
		out = append(out, rew(f))
	}
	out = append(out, refusedCall{name: "MergeWith(sketch of another mapping kind)",
		call: func(sl *SkSlot, w *SketchWorld) error {
			return sl.MergeWith(NewSkSlot(otherMapping(specOfSlot(w, sl)), sl.Store, sl.Exact))
		}})
	for _, ok := range []byte{'G', 'I', 'C'} {
		ok := ok
		out = append(out, refusedCall{name: fmt.Sprintf("MergeWith(non-empty sketch of mapping kind %c with the same base and index offset)", ok),
			call: func(sl *SkSlot, w *SketchWorld) error {
				if specOfSlot(w, sl).Kind == ok {
					return errors.New("same kind: not part of the menu")
				}
				g, o := mapParams(sl.Mapping())
				other := NewSkSlot(MapSpec{Kind: ok, Gamma: g, Offset: o}.New(), sl.Store, sl.Exact)
				other.Q().Add(3)
				return sl.MergeWith(other)
			}})
	}
	out = append(out, refusedCall{name: "MergeWith(non-empty sketch of the same base with the index offset shifted by 37)",
		call: func(sl *SkSlot, w *SketchWorld) error {
			g, o := mapParams(sl.Mapping())
			other := NewSkSlot(MapSpec{Kind: specOfSlot(w, sl).Kind, Gamma: g, Offset: o + 37}.New(), sl.Store, sl.Exact)
			other.Q().Add(3)
			return sl.MergeWith(other)
		}})
	out = append(out, refusedCall{name: "MergeWith(non-empty sketch of a clearly different accuracy)",
		call: func(sl *SkSlot, w *SketchWorld) error {
			o := specOfSlot(w, sl)
			if o.Gamma != 0 {
				o.Gamma *= 1.01
			} else {
				o.Alpha *= 0.9
			}
			other := NewSkSlot(o.New(), sl.Store, sl.Exact)
			other.Q().Add(3)
			return sl.MergeWith(other)
		}})
	return out
}

// checkC13: in this state every refused call returns its documented error and
// leaves the full observation unchanged; accepted calls return nil.
func checkC13(w *SketchWorld, slot int) (fails []mc.Fail) {
	sl := w.S[slot]
	q := sl.Q()
	wmap, wspec := w.M[slot].Map, w.M[slot].Spec
	before := ObserveSketch(q)
	empty := q.IsEmpty()
	// a cheap fingerprint attributes a change to one call; the full observation
	// is compared once more after the whole menu
	finger := func() string {
		mn, e1 := q.GetMinValue()
		mx, e2 := q.GetMaxValue()
		md, e3 := q.GetValueAtQuantile(0.5)
		sum := 0.0
		if sumIsOrderFree(q) {
			sum = q.GetSum()
		}
		return fmt.Sprintf("count=%v zero=%v sum=%v min=%v/%v max=%v/%v median=%v/%v pos=%v neg=%v", q.GetCount(), q.GetZeroCount(), sum, mn, e1 != nil, mx, e2 != nil, md, e3 != nil,
			q.GetPositiveValueStore().TotalCount(), q.GetNegativeValueStore().TotalCount())
	}
	fbefore := finger()
	for _, rc := range refusedMenu(wmap) {
		err := rc.call(sl, w)
		after, before := finger(), fbefore
		mc.Count("refused_calls", 1)
		if err == nil {
			fails = append(fails, mc.Fail{Clause: "C13.refused", Detail: fmt.Sprintf("%s, %s store, exact=%v, state %s: %s was accepted", wspec, sl.Store, sl.Exact, before, rc.name)})
			return
		}
		if rc.want != nil && !errors.Is(err, rc.want) {
			fails = append(fails, mc.Fail{Clause: "C13.documented-error", Detail: fmt.Sprintf("%s, %s store, exact=%v: %s returned %q, documented error is %q", wspec, sl.Store, sl.Exact, rc.name, err, rc.want)})
			return
		}
		if after != before {
			fails = append(fails, mc.Fail{Clause: "C13.unchanged", Detail: fmt.Sprintf("%s, %s store, exact=%v: the refused call %s changed the sketch\n  before: %s\n  after:  %s", wspec, sl.Store, sl.Exact, rc.name, before, after)})
			return
		}
	}
	if after := ObserveSketch(q); after != before {
		fails = append(fails, mc.Fail{Clause: "C13.unchanged", Detail: fmt.Sprintf("%s, %s store, exact=%v: the refused calls of the menu changed the sketch\n  before: %s\n  after:  %s", wspec, sl.Store, sl.Exact, before, after)})
		return
	}
	if empty {
		for _, p := range []float64{0, 0.5, 1} {
			if _, err := q.GetValueAtQuantile(p); err == nil {
				fails = append(fails, mc.Fail{Clause: "C13.refused", Detail: fmt.Sprintf("GetValueAtQuantile(%v) on an empty sketch (%s store, exact=%v) was accepted", p, sl.Store, sl.Exact)})
			}
		}
		if _, err := q.GetMinValue(); err == nil {
			fails = append(fails, mc.Fail{Clause: "C13.refused", Detail: "GetMinValue on an empty sketch was accepted"})
		}
		if _, err := q.GetMaxValue(); err == nil {
			fails = append(fails, mc.Fail{Clause: "C13.refused", Detail: "GetMaxValue on an empty sketch was accepted"})
		}
	} else {
		for _, p := range []float64{0, 5e-324, 0.5, 1 - math.Ldexp(1, -53), 1, math.Copysign(0, -1)} {
			if _, err := q.GetValueAtQuantile(p); err != nil {
				fails = append(fails, mc.Fail{Clause: "C13.accepted", Detail: fmt.Sprintf("GetValueAtQuantile(%v) on a non-empty sketch was refused: %v", p, err)})
			}
		}
	}
	// accepted menu last (it changes the disposable instance)
	mn, mx := wmap.MinIndexableValue(), wmap.MaxIndexableValue()
	vals := []float64{mn, -mn, math.Copysign(0, -1), 5e-324, -5e-324, 1}
	if sl.Store.K != 'D' { // the unbounded array would have to span the whole range
		vals = append(vals, mx, -mx)
	}
	for _, v := range vals {
		if err := q.Add(v); err != nil {
			fails = append(fails, mc.Fail{Clause: "C13.accepted", Detail: fmt.Sprintf("%s, %s store, exact=%v: Add(%v) of a trackable value was refused: %v", wspec, sl.Store, sl.Exact, v, err)})
			return
		}
		mc.Count("accepted_calls", 1)
		for _, c := range []float64{0, math.Copysign(0, -1), 0.0009765625, 1, 3} {
			if err := q.AddWithCount(v, c); err != nil {
				fails = append(fails, mc.Fail{Clause: "C13.accepted", Detail: fmt.Sprintf("%s, %s store, exact=%v: AddWithCount(%v, %v) of a trackable value and non-negative weight was refused: %v", wspec, sl.Store, sl.Exact, v, c, err)})
				return
			}
			mc.Count("accepted_calls", 1)
		}
	}
	if err := q.Add(3); err != nil {
		fails = append(fails, mc.Fail{Clause: "C13.accepted", Detail: "Add(3) refused: " + err.Error()})
	}
	for _, f := range []float64{0.5, 1, 3, 5e-324} {
		if err := q.Reweight(f); err != nil {
			fails = append(fails, mc.Fail{Clause: "C13.accepted", Detail: fmt.Sprintf("Reweight(%v) refused: %v", f, err)})
		}
	}
	// a stream whose mapping is equal within the tolerance of Equals but not
	// identical may be absorbed (the decoder adopts it): whatever mapping the sketch
	// carries afterwards, its own range ends are the limits of what it accepts
	if sl.Store.K != 'D' {
		for _, d := range []float64{4e-13, -4e-13} {
			g, o := mapParams(sl.Mapping())
			twin := NewSkSlot(MapSpec{Kind: specOfSlot(w, sl).Kind, Gamma: g * (1 + d), Offset: o}.New(), sl.Store, sl.Exact)
			var b []byte
			twin.Q().Encode(&b, false)
			if err := q.DecodeAndMergeWith(b); err != nil {
				continue // a stricter equality is not a violation
			}
			live := sl.Mapping().MaxIndexableValue()
			where := fmt.Sprintf("%s, %s store, exact=%v, after decoding an empty sketch whose base differs by %v relative", wspec, sl.Store, sl.Exact, d)
			for _, v := range []float64{live, -live} {
				if err := q.AddWithCount(v, 0.0009765625); err != nil {
					fails = append(fails, mc.Fail{Clause: "C13.accepted", Detail: fmt.Sprintf("%s: AddWithCount(%v, 2^-10) at the end of the range of the mapping the sketch now carries was refused: %v", where, v, err)})
					return
				}
				if err := q.Add(v); err != nil {
					fails = append(fails, mc.Fail{Clause: "C13.accepted", Detail: fmt.Sprintf("%s: Add(%v) at the end of the range of the mapping the sketch now carries was refused: %v", where, v, err)})
					return
				}
			}
			up := math.Nextafter(live, math.Inf(1))
			if err := q.Add(up); !errors.Is(err, ddsketch.ErrUntrackableTooHigh) {
				fails = append(fails, mc.Fail{Clause: "C13.refused", Detail: fmt.Sprintf("%s: Add(%v) just above the range of the mapping the sketch now carries returned %v", where, up, err)})
				return
			}
			if err := q.AddWithCount(-up, 2); !errors.Is(err, ddsketch.ErrUntrackableTooLow) {
				fails = append(fails, mc.Fail{Clause: "C13.refused", Detail: fmt.Sprintf("%s: AddWithCount(%v, 2) just below the range of the mapping the sketch now carries returned %v", where, -up, err)})
				return
			}
		}
	}
	return
}

// constructor menu of C13 (a plain enumeration, run once per check)
func constructorShard() mc.Shard {
	run := func(time.Time) (res *mc.Result) {
		res = &mc.Result{Scenario: "C13/constructors", Property: "C13", Exhaustive: true}
		fail := func(format string, a ...any) {
			res.Violations = append(res.Violations, mc.Violation{Property: "C13", Clause: "C13.constructors", Scenario: "C13/constructors", Detail: fmt.Sprintf(format, a...), History: []string{fmt.Sprintf(format, a...)}})
		}
		defer func() {
			if r := recover(); r != nil {
				d := fmt.Sprintf("a constructor or decoder of the menu panicked: %v\n%s", r, debug.Stack())
				res.Violations = append(res.Violations, mc.Violation{Property: "C13", Clause: "C13.no-panic", Scenario: "C13/constructors", Detail: d, History: []string{"constructor menu"}})
			}
		}()
		type ctor struct {
			name string
			f    func(float64) error
		}
		e1 := func(_ any, err error) error { return err }
		accs := []ctor{
			{"mapping.NewLogarithmicMapping", func(a float64) error { _, err := mapping.NewLogarithmicMapping(a); return err }},
			{"mapping.NewLinearlyInterpolatedMapping", func(a float64) error { _, err := mapping.NewLinearlyInterpolatedMapping(a); return err }},
			{"mapping.NewCubicallyInterpolatedMapping", func(a float64) error { _, err := mapping.NewCubicallyInterpolatedMapping(a); return err }},
			{"mapping.NewDefaultMapping", func(a float64) error { return e1(mapping.NewDefaultMapping(a)) }},
			{"ddsketch.NewDefaultDDSketch", func(a float64) error { _, err := ddsketch.NewDefaultDDSketch(a); return err }},
			{"ddsketch.LogUnboundedDenseDDSketch", func(a float64) error { _, err := ddsketch.LogUnboundedDenseDDSketch(a); return err }},
			{"ddsketch.LogCollapsingLowestDenseDDSketch(.,8)", func(a float64) error { _, err := ddsketch.LogCollapsingLowestDenseDDSketch(a, 8); return err }},
			{"ddsketch.LogCollapsingHighestDenseDDSketch(.,8)", func(a float64) error { _, err := ddsketch.LogCollapsingHighestDenseDDSketch(a, 8); return err }},
			{"ddsketch.NewDefaultDDSketchWithExactSummaryStatistics", func(a float64) error {
				_, err := ddsketch.NewDefaultDDSketchWithExactSummaryStatistics(a)
				return err
			}},
		}
		bad := []float64{-0.1, 0, math.Copysign(0, -1), 1, 1.5, math.Inf(1), math.Inf(-1), -5e-324, 2}
		good := []float64{1e-6, 0.01, 0.5, 0.99, math.Nextafter(1, 0), 1e-3}
		for _, c := range accs {
			for _, a := range bad {
				res.Evaluations++
				if c.f(a) == nil {
					fail("%s(%v) accepted an accuracy outside (0,1)", c.name, a)
				}
			}
			for _, a := range good {
				res.Evaluations++
				if err := c.f(a); err != nil {
					fail("%s(%v) refused an accuracy inside (0,1): %v", c.name, a, err)
				}
			}
		}
		gam := []ctor{
			{"mapping.NewLogarithmicMappingWithGamma", func(g float64) error { _, err := mapping.NewLogarithmicMappingWithGamma(g, 0.5); return err }},
			{"mapping.NewLinearlyInterpolatedMappingWithGamma", func(g float64) error {
				_, err := mapping.NewLinearlyInterpolatedMappingWithGamma(g, 0.5)
				return err
			}},
			{"mapping.NewCubicallyInterpolatedMappingWithGamma", func(g float64) error {
				_, err := mapping.NewCubicallyInterpolatedMappingWithGamma(g, 0.5)
				return err
			}},
		}
		for _, c := range gam {
			for _, g := range []float64{1, 0.5, 0, -2, math.Nextafter(1, 0), math.Inf(-1), math.Copysign(0, -1)} {
				res.Evaluations++
				if c.f(g) == nil {
					fail("%s(%v, 0.5) accepted a base not above one", c.name, g)
				}
			}
			for _, g := range []float64{math.Nextafter(1, 2) + 1e-9, 1.0001, 1.02, 3, 199} {
				res.Evaluations++
				if err := c.f(g); err != nil {
					fail("%s(%v, 0.5) refused a base above one: %v", c.name, g, err)
				}
			}
		}
		// the same bases arriving in serialised form: protobuf messages and binary mapping blocks
		for _, ip := range []sketchpb.IndexMapping_Interpolation{sketchpb.IndexMapping_NONE, sketchpb.IndexMapping_LINEAR, sketchpb.IndexMapping_CUBIC} {
			for _, g := range []float64{1, 0.5, 0, -2, math.Nextafter(1, 0), math.Inf(-1)} {
				pm := &sketchpb.IndexMapping{Gamma: g, IndexOffset: 0.5, Interpolation: ip}
				res.Evaluations += 4
				if _, err := mapping.FromProto(pm); err == nil {
					fail("mapping.FromProto(%v) accepted a base not above one", pm)
				}
				if sk, err := ddsketch.FromProto(&sketchpb.DDSketch{Mapping: pm}); err == nil {
					fail("ddsketch.FromProto of a message whose mapping is %v returned a sketch (mapping %v) and no error", pm, sk.IndexMapping)
				}
				if _, err := ddsketch.FromProtoWithStoreProvider(&sketchpb.DDSketch{Mapping: pm, ZeroCount: 1}, store.SparseStoreConstructor); err == nil {
					fail("ddsketch.FromProtoWithStoreProvider of a message whose mapping is %v returned no error", pm)
				}
				// binary mapping block: flag, gamma, offset (both little-endian float64)
				flagByte := map[sketchpb.IndexMapping_Interpolation]byte{sketchpb.IndexMapping_NONE: 0<<2 | 2, sketchpb.IndexMapping_LINEAR: 1<<2 | 2, sketchpb.IndexMapping_CUBIC: 3<<2 | 2}[ip]
				blk := model.AppendFloat64LE(model.AppendFloat64LE([]byte{flagByte}, g), 0.5)
				if _, err := ddsketch.DecodeDDSketch(blk, store.DenseStoreConstructor, nil); err == nil {
					fail("DecodeDDSketch of a mapping block with base %v (% x) returned no error", g, blk)
				}
			}
			for _, g := range []float64{1.02, 3} {
				pm := &sketchpb.IndexMapping{Gamma: g, IndexOffset: 0.5, Interpolation: ip}
				res.Evaluations += 2
				if _, err := mapping.FromProto(pm); err != nil {
					fail("mapping.FromProto(%v) refused a base above one: %v", pm, err)
				}
				flagByte := map[sketchpb.IndexMapping_Interpolation]byte{sketchpb.IndexMapping_NONE: 0<<2 | 2, sketchpb.IndexMapping_LINEAR: 1<<2 | 2, sketchpb.IndexMapping_CUBIC: 3<<2 | 2}[ip]
				blk := model.AppendFloat64LE(model.AppendFloat64LE([]byte{flagByte}, g), 0.5)
				if sk, err := ddsketch.DecodeDDSketch(blk, store.DenseStoreConstructor, nil); err != nil {
					fail("DecodeDDSketch of a mapping block with base %v (% x) failed: %v", g, blk, err)
				} else if gg, oo := mapParams(sk.IndexMapping); gg != g || oo != 0.5 || int(sk.IndexMapping.ToProto().Interpolation) != int(ip) {
					fail("DecodeDDSketch of a mapping block with base %v offset 0.5 kind %v gave %v", g, ip, sk.IndexMapping.ToProto())
				}
			}
		}
		res.Evaluations++
		if _, err := mapping.FromProto(nil); err == nil {
			fail("mapping.FromProto(nil) returned no error")
		}
		for _, c := range []float64{-1, -5e-324, math.Inf(-1)} {
			res.Evaluations++
			if _, err := store.NewBin(3, c); err == nil {
				fail("store.NewBin(3, %v) accepted a negative weight", c)
			}
		}
		for _, c := range []float64{0, 1, 0.5, math.Copysign(0, -1)} {
			res.Evaluations++
			if _, err := store.NewBin(-3, c); err != nil {
				fail("store.NewBin(-3, %v) refused a non-negative weight: %v", c, err)
			}
		}
		// bare stores refuse non-positive reweighting factors and are left as they were
		for _, k := range []Kind{{K: 'D'}, {K: 'S'}, {K: 'P'}, {K: 'L', N: 3}, {K: 'H', N: 3}} {
			for _, f := range []float64{0, math.Copysign(0, -1), -1, -0.5, math.Inf(-1)} {
				st := k.New()
				st.AddWithCount(3, 2)
				st.Add(5)
				st.Add(5)
				before := StoreContent(st)
				res.Evaluations++
				if err := st.Reweight(f); err == nil {
					fail("%s store: Reweight(%v) was accepted", k, f)
				} else if after := StoreContent(st); after != before {
					fail("%s store: the refused Reweight(%v) changed the store from {%s} to {%s}", k, f, before, after)
				}
			}
			for _, f := range []float64{0.5, 1, 3} {
				st := k.New()
				st.Add(5)
				res.Evaluations++
				if err := st.Reweight(f); err != nil {
					fail("%s store: Reweight(%v) was refused: %v", k, f, err)
				}
			}
		}
		badStats := [][4]float64{{-1, 0, 1, 2}, {1, 0, 3, 2}, {0, 0, 1, 2}, {0, 0, math.Inf(1), 0}, {0, 0, 0, math.Inf(-1)}}
		for _, b := range badStats {
			res.Evaluations++
			if _, err := stat.NewSummaryStatisticsFromData(b[0], b[1], b[2], b[3]); err == nil {
				fail("stat.NewSummaryStatisticsFromData(%v) accepted an inconsistent tuple", b)
			}
		}
		goodStats := [][4]float64{{0, 0, math.Inf(1), math.Inf(-1)}, {2, 3, 1, 2}, {0.5, 1, 2, 2}}
		for _, b := range goodStats {
			res.Evaluations++
			if _, err := stat.NewSummaryStatisticsFromData(b[0], b[1], b[2], b[3]); err != nil {
				fail("stat.NewSummaryStatisticsFromData(%v) refused a consistent tuple: %v", b, err)
			}
		}
		// a sketch and statistics that disagree on emptiness
		sk, _ := ddsketch.NewDefaultDDSketch(0.01)
		sk.Add(1)
		res.Evaluations++
		if _, err := ddsketch.NewDDSketchWithExactSummaryStatisticsFromData(sk, stat.NewSummaryStatistics()); err == nil {
			fail("NewDDSketchWithExactSummaryStatisticsFromData accepted a non-empty sketch with empty statistics")
		}
		res.Distinct = res.Evaluations
		res.States, res.Transitions = res.Evaluations, res.Evaluations
		res.Samples = []string{"mapping.NewLogarithmicMapping(1) must be refused", "mapping.NewCubicallyInterpolatedMappingWithGamma(1, 0.5) must be refused"}
		return res
	}
	return mc.Shard{Name: "C13/constructors", Weight: 1, Run: run, Replay: func(_ string, history []string) ([]mc.Fail, error) {
		var fails []mc.Fail
		for _, v := range run(time.Time{}).Violations {
			if len(history) == 0 || (len(v.History) > 0 && v.History[0] == history[0]) {
				fails = append(fails, mc.Fail{Clause: v.Clause, Detail: v.Detail})
			}
		}
		return fails, nil
	}}
}

// scaled content of a real sketch (expectation of C16, model-free)
func scaledStoreContent(s store.Store, f float64) string {
	type kv struct {
		k int
		w float64
	}
	var each []kv
	s.ForEach(func(i int, w float64) bool { each = append(each, kv{i, w * f}); return false })
	sort.Slice(each, func(i, j int) bool { return each[i].k < each[j].k })
	b := make([]byte, 0, 64)
	for _, e := range each {
		b = append(b, fmt.Sprintf("%d:", e.k)...)
		b = appendF(b, e.w)
		b = append(b, ' ')
	}
	return string(b)
}

func c16SketchTransition(parent, child *SketchWorld, op skOp) (fails []mc.Fail) {
	f, s := op.factor, op.slot
	pq, cq := parent.S[s].Q(), child.S[s].Q()
	want := "zero=" + fstr(pq.GetZeroCount()*f) + " pos={" + scaledStoreContent(pq.GetPositiveValueStore(), f) + "} neg={" + scaledStoreContent(pq.GetNegativeValueStore(), f) + "}"
	got := SketchContent(cq)
	where := fmt.Sprintf("%s, %s store, exact=%v", parent.M[s].Spec, parent.S[s].Store, parent.S[s].Exact)
	if got != want {
		fails = append(fails, mc.Fail{Clause: "C16.content-scaled", Detail: fmt.Sprintf("%s: after Reweight(%s) the bins are not the previous bins scaled\n  got:  %s\n  want: %s", where, fstr(f), got, want)})
	}
	if cq.GetCount() != pq.GetCount()*f {
		fails = append(fails, mc.Fail{Clause: "C16.count-scaled", Detail: fmt.Sprintf("%s: count %v after Reweight(%s) of a sketch of count %v", where, cq.GetCount(), fstr(f), pq.GetCount())})
	}
	if parent.S[s].Exact && !pq.IsEmpty() {
		pmin, _ := pq.GetMinValue()
		pmax, _ := pq.GetMaxValue()
		cmin, e1 := cq.GetMinValue()
		cmax, e2 := cq.GetMaxValue()
		if e1 != nil || e2 != nil || cmin != pmin || cmax != pmax {
			fails = append(fails, mc.Fail{Clause: "C16.extremes-unchanged", Detail: fmt.Sprintf("%s: exact min/max %v/%v became %v/%v (%v %v) after Reweight(%s)", where, pmin, pmax, cmin, cmax, e1, e2, fstr(f))})
		}
		ws := pq.GetSum() * f
		if d := math.Abs(cq.GetSum() - ws); d > 4*math.Ldexp(1, -52)*math.Abs(ws) {
			fails = append(fails, mc.Fail{Clause: "C16.sum-scaled", Detail: fmt.Sprintf("%s: exact sum %v after Reweight(%s) of a sketch of sum %v", where, cq.GetSum(), fstr(f), pq.GetSum())})
		}
	}
	return
}

func c14SketchTransition(parent, child *SketchWorld, op skOp) (fails []mc.Fail) {
	// a = b.Copy(): the copy answers like the original at the time of copying
	a, b := op.slot, op.src
	got, want := ObserveSketch(child.S[a].Q()), ObserveSketch(parent.S[b].Q())
	if got != want {
		fails = append(fails, mc.Fail{Clause: "C14.copy-equals-original", Detail: fmt.Sprintf("%s store: the copy does not answer like its original\n  copy:     %s\n  original: %s", parent.S[b].Store, got, want)})
	}
	return
}

// orderFree: no result of this scenario depends on map iteration order
// (either the order is owned by the overlay, or no sparse store is involved).
func orderFree(ks []Kind) bool {
	// native build: sparse stores and protobuf bin maps are walked in the
	// runtime's order, and sums of non-dyadic weights depend on it
	return mc.MapOrderControlled
}

var reweightFactors = []float64{0.0009765625, 0.5, 1, 2, 3}

func init() {
	mc.Register(&mc.Property{
		ID: "C10", Level: "model_checking",
		Rule:        "explicit-state BFS over histories of two sketches with exact summary statistics (Add, AddWithCount incl. weight 0 and refused values, MergeWith, Copy, Clear, Reweight, ChangeMapping with a scale, encode/decode, DecodeAndMergeWith into non-empty); every distinct state is judged against the absorbed (value, weight) multiset: count exact, min/max exact, sum within 16 ulps of the total of |value*weight| (reference sum in 2000-bit arithmetic), emptiness, every quantile = the plain answer clamped to [min,max]; distinct_nontrivial counts distinct (contents, multisets)",
		Assumptions: []string{"dyadic weights; reweighting factors 0.5, 2, 3; unit-change scales 2^-30, 0.5 and 2 (powers of two, so rescaled extremes are exact)"},
		Shards: func(tier string) []mc.Shard {
			var specs []*SketchScenarioSpec
			for _, ms := range mapGrid(tier) {
				for ki, k := range nonCollapsing {
					if tier == "quick" && ms.Alpha != 0.1 && ki != 2 {
						continue
					}
					m := ms.New()
					sp := &SketchScenarioSpec{Name: fmt.Sprintf("C10/%s/%s", ms, k), Property: "C10", Map: ms, Stores: []Kind{k, nonCollapsing[(ki+1)%3]}, Exact: true, Depth: 4,
						Checks: []func(*SketchWorld, int) []mc.Fail{checkC10}}
					if tier == "thorough" {
						sp.Depth = 5
					}
					vals := []float64{0, 1, -1, 7.3, -7.3, m.MinIndexableValue() / 2}
					for _, v := range vals {
						sp.Ops = append(sp.Ops, skAdd(0, v))
					}
					sp.Ops = append(sp.Ops, skAddW(0, 1, 0.5), skAddW(0, -7.3, 2), skAddW(0, 1e3, 0.0009765625), skAddW(0, 0.1, 3), skAddMany(0, 7.3, 512),
						skAddIgnored(0, 50, 0), skAddIgnored(0, math.NaN(), 1), skAddIgnored(0, math.Inf(1), 1), skAddIgnored(0, -math.MaxFloat64, 0.5), skAddIgnored(0, 1, -1),
						skAdd(1, 2), skAdd(1, -9), skAddW(1, 0.1, 3),
						skMerge(0, 1), skMerge(1, 0), skCopy(0, 1), skCopy(1, 0), skClear(0), skReweight(0, 0.5), skReweight(0, 2), skReweight(0, 3), skReweight(0, 0.0009765625),
						skCodec(0, 1, false, false), skCodec(0, 1, true, true), skCodec(1, 0, true, false), skCodec(0, 0, true, false), skRead(0), skReadEncode(0))
					if orderFree(sp.Stores) {
						// ChangeMapping produces non-dyadic weights, whose sums depend on the
						// order in which a sparse store is iterated
						sp.Ops = append(sp.Ops, skChangeMap(0, 0, MapSpec{Kind: 'C', Alpha: 0.05}, 0.5), skChangeMap(1, 0, ms, 2), skChangeMap(0, 1, ms, 1),
							// a scale far below 1: whatever the statistics keep beside the sum (the
							// compensation term) must be rescaled with it, or it dominates afterwards
							skChangeMap(0, 0, ms, 1.0/(1<<30)))
					}
					specs = append(specs, sp)
				}
			}
			// both slots built by the library's constructors of the exact-statistics variant
			if len(specs) > 0 {
				c0, c1 := ctorByName("NewDefaultDDSketchWithExactSummaryStatistics"), ctorByName("NewDDSketchWithExactSummaryStatisticsFromData")
				cs := *specs[0]
				cs.Map = MapSpec{Kind: 'G', Alpha: 0.1}
				cs.Stores = []Kind{c0.Store(0), c1.Store(0)}
				cs.Name = "C10/constructors(0.1)/P+S"
				cs.Ctor = func(slot int) *SkSlot {
					if slot == 0 {
						return c0.New(0.1, 0)
					}
					return c1.New(0.1, 0)
				}
				cs.Ops = nil
				for _, o := range specs[0].Ops {
					if o.tag != "changemapping" {
						cs.Ops = append(cs.Ops, o)
					}
				}
				if m := cs.Map.New(); true {
					cs.Ops[5] = skAdd(0, m.MinIndexableValue()/2)
				}
				specs = append(specs, &cs)
			}
			return shardsOfSketchSpecs(specs)
		},
		ShardBudget: budget(240*time.Second, 12*time.Minute),
	})

	mc.Register(&mc.Property{
		ID: "C11", Level: "model_checking",
		Rule:        "explicit-state BFS over all sequences of AddWithCount(v, w), v in {-7.3,-1,0,1,5,7.3}, w in {2^-10, 1/4, 1/2, 1, 3/2, 3, 2^20}, optionally followed by Reweight(2^-k); every distinct state is queried at q in {0,1/4,1/2,3/4,1} and at every cumulative boundary c/(W-1) with both float neighbours; each answer must be within alpha of an absorbed value whose cumulative-weight interval is within one unit of weight of q(W-1), lie between the reported extremes and come from a non-empty side; distinct_nontrivial counts distinct (contents, multisets)",
		Assumptions: []string{"dyadic weights so cumulative weights are exact", "rounding allowance as in C01"},
		Shards: func(tier string) []mc.Shard {
			var specs []*SketchScenarioSpec
			vals := []float64{-7.3, -1, 0, 1, 5, 7.3}
			ws := []float64{0.0009765625, 0.25, 0.5, 1, 1.5, 3, 1 << 20}
			for _, ms := range mapGrid(tier) {
				for _, k := range nonCollapsing {
					sp := &SketchScenarioSpec{Name: fmt.Sprintf("C11/%s/%s", ms, k), Property: "C11", Map: ms, Stores: []Kind{k}, Depth: 4,
						Checks: []func(*SketchWorld, int) []mc.Fail{checkC11}, LastTags: []string{"reweight"}}
					if tier == "thorough" {
						sp.Depth = 5
					}
					for _, v := range vals {
						for _, c := range ws {
							sp.Ops = append(sp.Ops, skAddW(0, v, c))
						}
					}
					sp.Ops = append(sp.Ops, skReweight(0, 0.5), skReweight(0, 0.0625), skReweight(0, 0.0009765625), skReweight(0, 2), skReweight(0, 3))
					specs = append(specs, sp)
				}
			}
			return shardsOfSketchSpecs(specs)
		},
		ShardBudget: budget(240*time.Second, 12*time.Minute),
	})

	mc.Register(&mc.Property{
		ID: "C13", Level: "model_checking",
		Rule:        "in every distinct state of two-slot sketch worlds (plain and exact-statistics variants; dense, sparse, paginated and collapsing stores) reached by bounded histories, every call of the refused menu (NaN, infinities, +-MaxFloat64 and the neighbours of +-MaxIndexableValue with weights 1, 0, 1/2; negative weights; q in {NaN, -5e-324, succ(1), -1, 2, +-Inf}; any q on an empty sketch; MergeWith / DecodeAndMergeWith of another mapping; Reweight by 0, -0, negatives) must return its documented error and leave the full observation unchanged, and every call of the accepted menu must return nil; refused calls are also operations of the alphabet so their futures are explored; one more shard enumerates the constructor menus; distinct_nontrivial counts distinct (contents, multisets)",
		Assumptions: []string{"NaN weights, factors and constructor parameters are outside the documented contract and are not probed"},
		Shards: func(tier string) []mc.Shard {
			var specs []*SketchScenarioSpec
			kinds := []Kind{{K: 'D'}, {K: 'S'}, {K: 'P'}, {K: 'L', N: 3}}
			for _, ms := range mapGrid(tier) {
				for ki, k := range kinds {
					for _, exact := range []bool{false, true} {
						if tier == "quick" && ms.Alpha != 0.1 && !(ki == 2) {
							continue
						}
						m := ms.New()
						sp := &SketchScenarioSpec{Name: fmt.Sprintf("C13/%s/%s/exact=%v", ms, k, exact), Property: "C13", Map: ms, Stores: []Kind{k, kinds[(ki+1)%len(kinds)]}, Exact: exact, Depth: 3,
							Checks: []func(*SketchWorld, int) []mc.Fail{checkC13}, ContentClause: "C13.futures"}
						if tier == "thorough" {
							sp.Depth = 4
						}
						sp.Ops = generalSketchOps(m, k, exact)
						sp.Ops = append(sp.Ops, skAddIgnored(0, math.NaN(), 1), skAddIgnored(0, math.NaN(), 0), skAddIgnored(0, math.Inf(1), 2), skAddIgnored(0, 1, -1), skAddIgnored(0, -math.MaxFloat64, 0))
						specs = append(specs, sp)
					}
				}
			}
			sh := shardsOfSketchSpecs(specs)
			return append(sh, constructorShard())
		},
		ShardBudget: budget(240*time.Second, 12*time.Minute),
	})

	mc.Register(&mc.Property{
		ID: "C14", Level: "model_checking",
		Predicates:  map[string]func(mc.Violation) bool{"same-shape-numbers-differ-in-their-last-bits": countLastBitsOnly},
		Rule:        "explicit-state BFS over histories that interleave mutations with read-only operations (rank / iteration / bin-stream reads, Encode, ToProto, EncodeProto, Copy, being the argument of MergeWith, DecodeAndMergeWith or ChangeMapping) on two-slot store worlds (all five store kinds) and sketch worlds (both variants); frame clause: across every transition the full observation of every slot the operation may not write is identical before and after (digest of the canonical observation stored with each state); copy clause: a fresh copy is observed identical to its original; independence follows from the frame clause applied to every later mutation of either side; plus every sequence of <= 3 (4) additions with NON-dyadic weights (running totals and compensated sums round) copied as a store of each kind and inside both sketch variants: the copy is observed identical to its original to the last bit and unchanged by a later addition to the original; distinct_nontrivial counts distinct contents",
		Assumptions: []string{"observations are compared as canonical renderings of every public observer; the approximate sum of a plain sketch on a sparse store is left out because it depends on map iteration order"},
		Shards: func(tier string) []mc.Shard {
			under := []Kind{{K: 'D'}, {K: 'S'}, {K: 'P'}, {K: 'L', N: 3}, {K: 'H', N: 3}}
			stSpecs := storeSpecs("C14", under, tier, 3, 4, func(sp *StoreScenarioSpec, o *alphabetOpts) {
				sp.Frame = "C14.frame"
				sp.CopyClause = true
				sp.NoReadTwin = true
				// bins whose weight has underflowed to exactly zero (5e-324 halved): a read
				// that tidies them away changes emptiness and extremes
				sp.Seeds = append(sp.Seeds, storeSeed("weights-underflowed-to-zero", opAddW(0, o.idxA[1], 5e-324), opAddW(0, o.idxA[2], 5e-324), opReweight(0, 0.5)))
			})
			sh := shardsOfSpecs(stSpecs)
			var specs []*SketchScenarioSpec
			kinds := []Kind{{K: 'P'}, {K: 'D'}, {K: 'S'}, {K: 'L', N: 3}}
			for _, ms := range mapGrid(tier) {
				for ki, k := range kinds {
					for _, exact := range []bool{false, true} {
						if tier == "quick" && ms.Alpha != 0.1 && ki != 0 {
							continue
						}
						m := ms.New()
						sp := &SketchScenarioSpec{Name: fmt.Sprintf("C14/%s/%s/exact=%v", ms, k, exact), Property: "C14", Map: ms, Stores: []Kind{k, kinds[(ki+1)%len(kinds)]}, Exact: exact, Depth: 4,
							Frame: "C14.frame", Transition: c14SketchTransition, WantTag: "copy", NoReadTwin: true}
						if tier == "thorough" {
							sp.Depth = 5
						}
						sp.Ops = generalSketchOps(m, k, exact)
						sp.Ops = append(sp.Ops, skRead(1), skReadEncode(1))
						// unit change with the same mapping (scale 1 is the copy path)
						sp.Ops = append(sp.Ops, skChangeMap(1, 0, ms, 1))
						if orderFree(sp.Stores) {
							sp.Ops = append(sp.Ops, skChangeMap(1, 0, MapSpec{Kind: 'C', Alpha: 0.05}, 2), skChangeMap(1, 0, MapSpec{Kind: 'C', Alpha: 0.05}, 1), skChangeMap(0, 1, ms, 0.5))
						}
						specs = append(specs, sp)
						if ki == 0 && !exact && ms.Kind == 'G' && ms.Alpha == 0.5 {
							// bins of a paginated store whose weights have rounded (a conversion by 1/2
							// merged back), one of them also held as a unit entry of the buffer: the
							// state in which the known finding of this property shows (KNOWN_FINDINGS.txt);
							// reached at depth 5 in the thorough tier, seeded here so that both tiers
							// report it alike
							rs := *sp
							rs.Name = sp.Name + "/rounded-weights-and-a-buffered-unit"
							rs.Depth = 1
							if tier == "thorough" {
								rs.Depth = 2
							}
							rs.Seeds = []mc.Seed[*SketchWorld]{skSeed("converted-by-half-and-merged-back", skAdd(0, 8.999999999999998), skCopy(1, 0), skChangeMap(0, 1, ms, 0.5), skMerge(1, 0))}
							specs = append(specs, &rs)
						}
					}
				}
			}
			sh = append(sh, c14NonDyadicCopyShards(tier)...)
			return append(sh, shardsOfSketchSpecs(specs)...)
		},
		ShardBudget: budget(240*time.Second, 12*time.Minute),
	})

	mc.Register(&mc.Property{
		ID: "C15", Level: "model_checking",
		Rule:        "differential, model-free: every history of the two-slot store worlds (all five kinds) and sketch worlds (both variants) is executed in a main world as written and in a twin world where each Clear is executed as 'replace by a newly constructed object'; the visited-set key contains the concrete dumps of both worlds (incl. stale memory behind len); after every transition corresponding slots must be observed identical; distinct_nontrivial counts distinct contents",
		Assumptions: []string{"histories bounded by the stated depth below every seed; Clear may occur any number of times within it"},
		Shards: func(tier string) []mc.Shard {
			under := []Kind{{K: 'D'}, {K: 'S'}, {K: 'P'}, {K: 'L', N: 3}, {K: 'H', N: 3}, {K: 'L', N: 1}, {K: 'L', N: 100}, {K: 'H', N: 70}}
			stSpecs := storeSpecs("C15", under, tier, 3, 4, func(sp *StoreScenarioSpec, o *alphabetOpts) {
				sp.Twin = true
				o.reads = false
				// one combined read: whatever a query caches must not survive Clear
				o.runs = append(o.runs, opReadAll(0))
				// model-free world: a weight that underflows to zero when halved leaves
				// an "empty" store with a populated index range behind
				o.runs = append(o.runs, opAddW(0, o.idxA[len(o.idxA)-1], 5e-324))
				sp.Seeds = append(sp.Seeds, storeSeed("weight-underflowed-to-zero", opAddW(0, o.idxA[1], 5e-324), opAddW(0, o.idxA[2], 5e-324), opReweight(0, 0.5)))
			})
			sh := shardsOfSpecs(stSpecs)
			var specs []*SketchScenarioSpec
			kinds := []Kind{{K: 'P'}, {K: 'D'}, {K: 'S'}, {K: 'H', N: 3}}
			for _, ms := range mapGrid(tier) {
				for ki, k := range kinds {
					for _, exact := range []bool{false, true} {
						if tier == "quick" && ki != 0 && !(ms.Alpha == 0.1 && ms.Kind == 'G') {
							// clearing does not depend on the mapping: the other store kinds once
							continue
						}
						m := ms.New()
						sp := &SketchScenarioSpec{Name: fmt.Sprintf("C15/%s/%s/exact=%v", ms, k, exact), Property: "C15", Map: ms, Stores: []Kind{k, kinds[(ki+1)%len(kinds)]}, Exact: exact, Depth: 4, Twin: true}
						if tier == "thorough" {
							sp.Depth = 5
						}
						sp.Ops = generalSketchOps(m, k, exact)
						// model-free world: a huge weighted value overflows the exact sum
						sp.Ops = append(sp.Ops, skAddW(0, 1e200, 1e200), skAddW(0, -1e200, 1e200))
						if exact {
							// a refused decode, then Clear: nothing of it may survive
							sp.Ops = append(sp.Ops, skDecodeRefusedThenClear(0))
						}
						specs = append(specs, sp)
					}
				}
			}
			return append(sh, shardsOfSketchSpecs(specs)...)
		},
		ShardBudget: budget(240*time.Second, 12*time.Minute),
	})

	mc.Register(&mc.Property{
		ID: "C16", Level: "model_checking",
		Rule:        "explicit-state BFS over histories of two-slot store worlds (all five kinds) and sketch worlds (both variants); every state of depth < bound receives Reweight(w) for w in {2^-10, 1/2, 1, 2, 3}; differential transition oracle: the content observed after Reweight must be exactly the content observed before with every weight multiplied by w (all observers incl. rank lookups for stores; bins, zero weight and count for sketches; exact sum scaled, exact min/max unchanged); Reweight is also an ordinary operation so its futures are explored; plus, literally, every sequence of <= 3 (4) additions with NON-dyadic weights on each store kind and through a sketch, followed by Reweight(w), compared observer for observer (totals to the last bit) with a twin object that received the weights multiplied by the dyadic w; distinct_nontrivial counts distinct contents",
		Assumptions: []string{"dyadic weights so scaled weights are exact (w=3 included: small numerators)", "twin shards: dyadic factors {1/2, 2, 4, 2^-10} (scaling commutes with rounding), weights {0.1, 0.3, 0.7, 3} that never become 1; the sparse store's twin is skipped when map order is not controlled (its total is summed in map order)"},
		Shards: func(tier string) []mc.Shard {
			under := []Kind{{K: 'D'}, {K: 'S'}, {K: 'P'}, {K: 'L', N: 3}, {K: 'H', N: 3}}
			stSpecs := storeSpecs("C16", under, tier, 4, 5, func(sp *StoreScenarioSpec, o *alphabetOpts) {
				sp.Reweights = true
				sp.LastTags = []string{"reweight"}
				if sp.Kinds[0].K == 'P' {
					sp.Depth-- // seven heavy seeds
				}
				o.reweights = reweightFactors
				o.reads = false
				// something cached by a query and shared by a copy must not be scaled twice
				o.runs = append(o.runs, opReadAll(0), opReweight(1, 2))
			})
			sh := shardsOfSpecs(stSpecs)
			var specs []*SketchScenarioSpec
			kinds := []Kind{{K: 'P'}, {K: 'D'}, {K: 'S'}, {K: 'L', N: 3}}
			for _, ms := range mapGrid(tier) {
				for ki, k := range kinds {
					for _, exact := range []bool{false, true} {
						if tier == "quick" && ms.Alpha != 0.1 && ki != 0 {
							continue
						}
						m := ms.New()
						sp := &SketchScenarioSpec{Name: fmt.Sprintf("C16/%s/%s/exact=%v", ms, k, exact), Property: "C16", Map: ms, Stores: []Kind{k, kinds[(ki+1)%len(kinds)]}, Exact: exact, Depth: 4,
							Transition: c16SketchTransition, WantTag: "reweight", LastTags: []string{"reweight"}}
						if tier == "thorough" {
							sp.Depth = 5
						}
						sp.Ops = generalSketchOps(m, k, exact)
						for _, f := range []float64{0.0009765625, 1, 3} {
							sp.Ops = append(sp.Ops, skReweight(0, f))
						}
						sp.Ops = append(sp.Ops, skReweight(1, 0.5))
						specs = append(specs, sp)
					}
				}
			}
			sh = append(sh, c16TwinShards(tier)...)
			return append(sh, shardsOfSketchSpecs(specs)...)
		},
		ShardBudget: budget(240*time.Second, 12*time.Minute),
	})
}
