package props

import (
	"fmt"
	"math"
	"sort"
	"time"

	"github.com/DataDog/sketches-go/ddsketch/mapping"

	"verif/mc"
)

// C17: ChangeMapping over an enumerated family of sources, mapping pairs,
// scales, target store kinds and both sketch variants.

type c17Source struct {
	name string
	ent  []Entry
}

func c17Sources(m mapping.IndexMapping, window int) []c17Source {
	var out []c17Source
	// single-bin sources: every bin of a window around index(1)
	i0 := m.Index(1)
	for d := -window / 2; d < window/2; d++ {
		v := m.Value(i0 + d)
		if v < 2e-3 || v > 5e2 {
			continue
		}
		out = append(out, c17Source{fmt.Sprintf("single bin %d", i0+d), []Entry{{v, 1}}})
		if d%8 == 0 {
			out = append(out, c17Source{fmt.Sprintf("single negative bin %d", i0+d), []Entry{{-v, 2}}})
		}
	}
	// magnitudes far from 1 (still well inside every mapping's range)
	for _, v := range []float64{1e-100, 1e-12, 1e9, 1e100} {
		out = append(out, c17Source{fmt.Sprintf("single value %v", v), []Entry{{v, 3}}})
	}
	out = append(out, c17Source{"values 1e-12 and -1e9", []Entry{{1e-12, 1}, {-1e9, 2}}})
	// weights at the far ends: a narrow bin of huge weight, a wide bin of tiny weight
	out = append(out, c17Source{"huge weight on a narrow bin", []Entry{{1e-9, 1e300}}}, c17Source{"tiny weight on a wide bin", []Entry{{1e10, 1e-300}}})
	// small multi-bin sources
	vals := []float64{0.004, 0.05, 0.7, 1, 1.3, 9, 42, 300}
	for i := range vals {
		for j := i; j < len(vals); j++ {
			out = append(out, c17Source{fmt.Sprintf("values %v,%v with zero", vals[i], vals[j]), []Entry{{vals[i], 1}, {vals[j], 3}, {0, 0.5}}})
			if (i+j)%3 == 0 {
				out = append(out, c17Source{fmt.Sprintf("values %v,-%v", vals[i], vals[j]), []Entry{{vals[i], 2}, {-vals[j], 1}, {-vals[i], 0.25}}})
			}
		}
	}
	out = append(out, c17Source{"zeros only", []Entry{{0, 3.5}}}, c17Source{"zeros only, sub-minimum values", []Entry{{0, 1}, {m.MinIndexableValue() / 2, 2}}}, c17Source{"empty", nil})
	dense := c17Source{name: "thirty consecutive bins"}
	for d := 0; d < 30; d++ {
		dense.ent = append(dense.ent, Entry{m.Value(i0 + d), float64(1 + d%3)})
	}
	out = append(out, dense)
	return out
}

func firstValue(ent []Entry) float64 {
	if len(ent) == 0 {
		return 0
	}
	return ent[0].V
}

type binW struct {
	v, w float64
}

func sketchBins(q Sketch) (bins []binW) {
	q.ForEach(func(v, c float64) bool { bins = append(bins, binW{v, c}); return false })
	sort.Slice(bins, func(i, j int) bool { return bins[i].v < bins[j].v })
	return
}

func c17Shard(src, dst MapSpec, shift int, tier string) mc.Shard {
	name := fmt.Sprintf("C17/%s->%s", src, dst)
	if shift != 0 {
		name = fmt.Sprintf("C17/%s->same base, offset%+d", src, shift)
	}
	run := func(deadline time.Time) *mc.Result {
		start := time.Now()
		res := &mc.Result{Scenario: name, Property: "C17", Exhaustive: true}
		fail := func(clause, format string, a ...any) {
			if len(res.Violations) < 4 {
				d := fmt.Sprintf(format, a...)
				res.Violations = append(res.Violations, mc.Violation{Property: "C17", Clause: clause, Scenario: name, Seed: "conversion", History: []string{d}, Detail: d})
			}
		}
		m1 := src.New()
		var m2 mapping.IndexMapping
		dspec := dst
		if shift != 0 {
			g, o := mapParams(m1)
			dspec = MapSpec{Kind: src.Kind, Gamma: g, Offset: o + float64(shift)}
		}
		m2 = dspec.New()
		a1, a2 := m1.RelativeAccuracy(), m2.RelativeAccuracy()
		g1, o1 := mapParams(m1)
		g2, o2 := mapParams(m2)
		scales := []float64{1e-3, 0.1, 0.5, 1, 2, 10, 1e3}
		// bin-aligned scales: powers of the bases actually in play
		for k := -2; k <= 2; k++ {
			if k != 0 {
				scales = append(scales, math.Pow(trueBase(m2, g2), float64(k)))
			}
		}
		window := 60
		if tier == "thorough" {
			window = 200
		}
		sources := c17Sources(m1, window)
		distinct := map[string]struct{}{}
		lo, hi := (1-a2)/(1+a1), (1+a2)/(1-a1)
		for _, exact := range []bool{false, true} {
			for _, sk := range nonCollapsing {
				for _, tk := range nonCollapsing {
					if tier == "quick" && sk.K != tk.K && !(sk.K == 'D' && tk.K == 'S') && !(sk.K == 'P' && tk.K == 'P') {
						continue
					}
					for si, s := range sources {
						if time.Now().After(deadline) {
							res.Exhaustive = false
							break
						}
						if tier == "quick" && (exact || sk.K != tk.K) && si%4 != 0 {
							continue
						}
						srcSl := NewSkSlot(m1, sk, exact)
						for _, e := range s.ent {
							must(srcSl.Q().AddWithCount(e.V, e.W), "source add")
						}
						before := ObserveSketch(srcSl.Q())
						srcBins := sketchBins(srcSl.Q())
						var W float64
						for _, b := range srcBins {
							W += b.w
						}
						// a sparse source is walked in map order: every explored order is a separate
						// conversion (the default answer is ascending keys)
						orders := []mapOrder{{name: "ascending"}}
						if sk.K == 'S' && mc.MapOrderControlled {
							orders = append(orders, mapOrders...)
						}
						for _, scale := range scales {
							for _, ord := range orders {
								res.Evaluations++
								mc.Progress(func() string {
									return fmt.Sprintf("ChangeMapping %s (%s store, exact=%v, source %s %v) -> %s (%s store), scale %v, map order %s", src, sk, exact, s.name, s.ent, dspec, tk, scale, ord.name)
								})
								SetMapOrder(ord.perm)
								out := srcSl.ChangeMapping(m2, tk, scale)
								SetMapOrder(nil)
								q := out.Q()
								where := fmt.Sprintf("%s (%s store, exact=%v, source %s %v) -> %s (%s store), scale %v: ", src, sk, exact, s.name, s.ent, dspec, tk, scale)
								if ord.perm != nil {
									where = "[map order " + ord.name + "] " + where
								}
								// the requested mapping, judged on its parameters (not through Equals)
								if rg, ro := mapParams(out.Mapping()); wireMapKind(out.Mapping()) != wireMapKind(m2) || math.Abs(rg-g2) > 1e-9*g2 || math.Abs(ro-o2) > 1e-9*math.Max(1, math.Abs(o2)) {
									fail("C17.carries-mapping", where+"the result carries the mapping %v, requested %v", out.Mapping().ToProto(), m2.ToProto())
								}
								if after := ObserveSketch(srcSl.Q()); after != before {
									fail("C17.source-untouched", where+"the source changed\n  before: %s\n  after:  %s", before, after)
								}
								if !out.Mapping().Equals(m2) {
									fail("C17.carries-mapping", where+"the result does not carry the requested mapping")
								}
								if q.GetZeroCount() != srcSl.Q().GetZeroCount() {
									fail("C17.zero-weight", where+"zero weight %v became %v", srcSl.Q().GetZeroCount(), q.GetZeroCount())
								}
								outBins := sketchBins(q)
								var W2 float64
								neg := false
								for _, b := range outBins {
									W2 += b.w
								}
								for _, st := range []interface {
									ForEach(func(int, float64) bool)
								}{q.GetPositiveValueStore(), q.GetNegativeValueStore()} {
									st.ForEach(func(i int, c float64) bool {
										if c < 0 {
											neg = true
											fail("C17.no-negative-bin", where+"bin %d of the result has the negative weight %v", i, c)
										}
										return false
									})
								}
								_ = neg
								// "up to rounding": the computed bounds of a bin are off by eps(v) relative to
								// the value (tolerance policy of C03), i.e. by eps(v)/ln(base) of a bin's width;
								// a sliver of that relative size may fall outside every target bin on each side
								wTol := 1e-12
								for _, b := range srcBins {
									if b.v == 0 {
										continue
									}
									for _, pr := range [][3]float64{{math.Abs(b.v), g1, o1}, {math.Abs(b.v) * scale, g2, o2}} {
										e := math.Ldexp(1, -48) + math.Ldexp(1, -49)*(math.Abs(math.Log(pr[0]))+math.Abs(pr[2])*math.Log(pr[1]))
										if t := 4 * e / math.Log(math.Min(trueBase(m1, g1), trueBase(m2, g2))); t > wTol {
											wTol = t
										}
									}
								}
								if math.Abs(W2-W) > wTol*W {
									fail("C17.weight-conserved", where+"total weight %v became %v", W, W2)
								}
								if !exact && math.Abs(q.GetCount()-W) > wTol*W {
									fail("C17.weight-conserved", where+"count %v became %v", W, q.GetCount())
								}
								distinct[fmt.Sprintf("%v|%v|%d|%v", s.name, scale, len(outBins), sk)] = struct{}{}
								// overlap: single-bin sources send weight only to overlapping target bins
								if z, _ := zeroClass(m1, firstValue(s.ent)); len(s.ent) == 1 && !z {
									v := math.Abs(s.ent[0].V)
									i := m1.Index(v)
									inLo, inHi := m1.LowerBound(i)*scale, m1.LowerBound(i+1)*scale
									for _, b := range outBins {
										if b.w <= 1e-9*W {
											continue
										}
										j := m2.Index(math.Abs(b.v))
										oLo, oHi := m2.LowerBound(j), m2.LowerBound(j+1)
										if oHi < inLo*(1-1e-12) || oLo > inHi*(1+1e-12) {
											fail("C17.overlap", where+"target bin %d [%v,%v) received weight %v but does not overlap the scaled source bin [%v,%v)", j, oLo, oHi, b.w, inLo, inHi)
										}
									}
								}
								// quantiles: composed accuracy bound at a rank at most one unit of weight away
								if scale == 1 && m1.Equals(m2) {
									if a, b := SketchContent(q), SketchContent(srcSl.Q()); a != b {
										fail("C17.identity-is-copy", where+"equal mapping and scale 1 did not give an exact copy\n  got:  %s\n  want: %s", a, b)
									}
								}
								cnt := q.GetCount()
								if cnt == 0 {
									if W != 0 {
										fail("C17.weight-conserved", where+"the result is empty")
									}
									continue
								}
								for _, p := range []float64{0, 0.1, 0.25, 0.5, 0.75, 0.9, 1} {
									y, err := q.GetValueAtQuantile(p)
									if err != nil {
										fail("C17.quantile", where+"q=%v refused: %v", p, err)
										break
									}
									r := p * (cnt - 1)
									ok := false
									var c float64
									for _, b := range srcBins {
										a0, b0 := c, c+b.w
										c = b0
										d := 0.0
										if r < a0 {
											d = a0 - r
										} else if r > b0 {
											d = r - b0
										}
										if d > 1+1e-9*W {
											continue
										}
										x := b.v * scale
										if x == 0 {
											if y == 0 {
												ok = true
											}
											continue
										}
										ratio := y / x
										if ratio >= lo*(1-1e-9) && ratio <= hi*(1+1e-9) {
											ok = true
											break
										}
									}
									if !ok {
										fail("C17.quantile", where+"q=%v answered %v, which is not within the combined accuracy [%v, %v] of any scaled source quantile at a rank within one unit of weight (source bins %v)", p, y, lo, hi, srcBins)
										break
									}
								}
								if exact && W > 0 {
									es, eo := srcSl.E, out.E
									if eo.GetCount() != es.GetCount() {
										fail("C17.statistics-rescaled", where+"exact count %v became %v", es.GetCount(), eo.GetCount())
									}
									smin, _ := es.GetMinValue()
									smax, _ := es.GetMaxValue()
									omin, _ := eo.GetMinValue()
									omax, _ := eo.GetMaxValue()
									if omin != smin*scale || omax != smax*scale {
										fail("C17.statistics-rescaled", where+"exact min/max %v/%v became %v/%v", smin, smax, omin, omax)
									}
									if d := math.Abs(eo.GetSum() - es.GetSum()*scale); d > 4*math.Ldexp(1, -52)*math.Abs(es.GetSum()*scale) {
										fail("C17.statistics-rescaled", where+"exact sum %v became %v", es.GetSum(), eo.GetSum())
									}
								}
								// the result is a sketch of its own: mutating it leaves the source untouched
								out.Q().Add(3 * scale)
								out.Q().AddWithCount(0, 2)
								if after := ObserveSketch(srcSl.Q()); after != before {
									fail("C17.source-untouched", where+"adding to the result changed the source\n  before: %s\n  after:  %s", before, after)
								}
							}
						}
					}
				}
			}
		}
		res.Distinct = int64(len(distinct))
		res.Samples = []string{fmt.Sprintf("%s: source 'single bin %d' with stores D->S at scales %v", name, m1.Index(1), scales)}
		mc.FlushSide(res)
		res.WallS = time.Since(start).Seconds()
		return res
	}
	return mc.Shard{Name: name, Weight: int(100 / math.Min(src.Alpha, 1)), Run: run, Replay: func(string, []string) ([]mc.Fail, error) {
		r := run(time.Now().Add(20 * time.Minute))
		var fails []mc.Fail
		for _, v := range r.Violations {
			fails = append(fails, mc.Fail{Clause: v.Clause, Detail: v.Detail})
		}
		return fails, nil
	}}
}

// trueBase: the ratio between successive bin lower bounds (the base of the
// bins), measured on the mapping itself.
func trueBase(m mapping.IndexMapping, gamma float64) float64 {
	i := m.Index(1)
	// for the interpolated mappings bins are not exactly geometric; use the
	// logarithmic base they approximate
	_ = i
	a := m.RelativeAccuracy()
	return (1 + a) / (1 - a)
}

func c17Shards(tier string) []mc.Shard {
	alphas := []float64{0.5, 0.1, 0.02}
	if tier == "thorough" {
		alphas = []float64{0.5, 0.25, 0.1, 0.02, 0.01}
	}
	var out []mc.Shard
	kinds := []byte{'G', 'I', 'C'}
	for _, k1 := range kinds {
		for _, a1 := range alphas {
			s := MapSpec{Kind: k1, Alpha: a1}
			for _, k2 := range kinds {
				for _, a2 := range alphas {
					if tier == "quick" && k1 != k2 && a1 != a2 && !(a1 == 0.1 || a2 == 0.1) {
						continue
					}
					out = append(out, c17Shard(s, MapSpec{Kind: k2, Alpha: a2}, 0, tier))
				}
			}
			for _, sh := range []int{-3, 1, 2} {
				out = append(out, c17Shard(s, s, sh, tier))
			}
		}
	}
	return out
}

func init() {
	mc.Register(&mc.Property{
		ID: "C17", Level: "exploration",
		Rule:        "exhaustive enumeration of conversions: ordered pairs of mappings (3 kinds x accuracies; plus the same base with integer offset shifts -3, +1, +2, which makes bins exactly aligned) x scales {1e-3, 0.1, 1/2, 1, 2, 10, 1e3} and the bin-aligned scales gamma^k (k = -2..2) x source/target store kinds x both sketch variants x sources {a single-bin sketch for every bin of a window around 1, positive and negative; pairs of values with a zero bucket and with negatives; thirty consecutive bins; single values at 1e-100, 1e-12, 1e9, 1e100; a weight of 1e300 on a narrow bin and of 1e-300 on a wide one}. Clauses per conversion: the source is observed unchanged; the result carries the requested mapping; zero weight equal; total weight within 1e-12; NO bin of negative weight; single-bin sources send weight only to overlapping target bins; every quantile satisfies the composed bound (1-a2)/(1+a1) <= y/(scale*x) <= (1+a2)/(1-a1) for a source bin x whose cumulative interval is within one unit of weight of the rank; equal mapping and scale 1 give an exact copy; exact statistics are rescaled. evaluations = conversions performed; distinct_nontrivial = distinct (source, scale, store, result shape)",
		Assumptions: []string{"values stay well inside both mappings' ranges after scaling (window sources in [2e-3, 5e2], far sources in [1e-100, 1e100], scales in [1e-3, 1e3])", "relative slack 1e-9 on the composed bound, 1e-12 on interval overlap; on total weight max(1e-12, 4 eps(v)/ln(base)) with eps(v) = 2^-48 + 2^-49 (|ln v| + |offset| ln gamma), the rounding of a bin's bounds as a fraction of its width"},
		Shards:      c17Shards,
		ShardBudget: budget(240*time.Second, 14*time.Minute),
	})
}
