package props

import (
	"fmt"
	"hash/fnv"
	"math"
	"sort"
	"strconv"
	"time"

	"github.com/DataDog/sketches-go/dataset"

	"verif/mc"
)

// DatasetWorld: two real datasets and, per slot, the list of added values.
type DatasetWorld struct {
	D [2]*dataset.Dataset
	M [2][]float64
	// Log is the history that built this world (so that the oracle can rebuild
	// it and put each observer first after the last mutation)
	Log []func(*DatasetWorld)
}

func (w *DatasetWorld) rebuild() *DatasetWorld {
	n := &DatasetWorld{D: [2]*dataset.Dataset{dataset.NewDataset(), dataset.NewDataset()}}
	for _, f := range w.Log {
		f(n)
	}
	return n
}

func dsOp(name string, writes uint32, f func(*DatasetWorld)) mc.Op[*DatasetWorld] {
	return mc.Op[*DatasetWorld]{Name: name, Writes: writes, Do: func(w *DatasetWorld) { w.Log = append(w.Log, f); f(w) }}
}

// firstObservers: each is called as the very first query after the history on
// a world of its own (queries sort lazily, so an answer may depend on whether
// another query ran before it).
var firstObservers = []struct {
	name string
	call func(d *dataset.Dataset) float64
	want func(xs []float64) float64
}{
	{"Min()", func(d *dataset.Dataset) float64 { return d.Min() }, func(xs []float64) float64 { return xs[0] }},
	{"Max()", func(d *dataset.Dataset) float64 { return d.Max() }, func(xs []float64) float64 { return xs[len(xs)-1] }},
	{"LowerQuantile(0)", func(d *dataset.Dataset) float64 { return d.LowerQuantile(0) }, func(xs []float64) float64 { return xs[0] }},
	{"UpperQuantile(1)", func(d *dataset.Dataset) float64 { return d.UpperQuantile(1) }, func(xs []float64) float64 { return xs[len(xs)-1] }},
	{"Quantile(1)", func(d *dataset.Dataset) float64 { return d.Quantile(1) }, func(xs []float64) float64 { return xs[len(xs)-1] }},
}

func observeDataset(d *dataset.Dataset, n int) string {
	b := make([]byte, 0, 256)
	b = append(b, "count="...)
	b = strconv.AppendFloat(b, d.Count, 'g', -1, 64)
	b = append(b, " len="...)
	b = strconv.AppendInt(b, int64(len(d.Values)), 10)
	if n > 0 {
		b = append(b, " min="...)
		b = appendF(b, d.Min())
		b = append(b, " max="...)
		b = appendF(b, d.Max())
	}
	b = append(b, " sum="...)
	b = appendF(b, d.Sum())
	for _, q := range datasetQs(n) {
		b = append(b, ' ')
		b = appendF(b, q)
		b = append(b, ':')
		b = appendF(b, d.LowerQuantile(q))
		b = append(b, '/')
		b = appendF(b, d.UpperQuantile(q))
		b = append(b, '/')
		b = appendF(b, d.Quantile(q))
	}
	return string(b)
}

func datasetQs(n int) []float64 {
	qs := quantilesFor(max(n, 1))
	return append(qs, -5e-324, -1, math.Nextafter(1, 2), 2)
}

func checkDataset(w *DatasetWorld) (obs []uint64, fails []mc.Fail) {
	for s := 0; s < 2; s++ {
		d, vals := w.D[s], w.M[s]
		n := len(vals)
		xs := append([]float64{}, vals...)
		sort.Float64s(xs)
		fail := func(clause, format string, a ...any) {
			shown := fmt.Sprint(vals)
			if len(vals) > 40 {
				shown = fmt.Sprintf("%v ... (%d values)", vals[:20], len(vals))
			}
			fails = append(fails, mc.Fail{Clause: clause, Detail: fmt.Sprintf("dataset %s, added %s: ", slotName(s), shown) + fmt.Sprintf(format, a...)})
		}
		if d.Count != float64(n) {
			fail("C20.count", "Count=%v after %d additions", d.Count, n)
		}
		for _, q := range datasetQs(n) {
			lo, up, qq := d.LowerQuantile(q), d.UpperQuantile(q), d.Quantile(q)
			if n == 0 || q < 0 || q > 1 {
				if !math.IsNaN(lo) || !math.IsNaN(up) || !math.IsNaN(qq) {
					fail("C20.out-of-domain", "q=%v on %d values answered %v/%v/%v instead of NaN", q, n, lo, up, qq)
				}
				continue
			}
			elo, ehi := exactRanks(q, float64(n-1))
			r := q * float64(n-1)
			flo, fhi := int64(math.Floor(r)), int64(math.Ceil(r))
			okLo := lo == xs[elo] || (flo >= 0 && flo < int64(n) && lo == xs[flo])
			okUp := up == xs[ehi] || (fhi >= 0 && fhi < int64(n) && up == xs[fhi])
			if !okLo || !okUp || math.Float64bits(qq) != math.Float64bits(lo) {
				sx := fmt.Sprint(xs)
				if n > 40 {
					sx = fmt.Sprintf("x[%d]=%v x[%d]=%v of %d sorted values", elo, xs[elo], ehi, xs[ehi], n)
				}
				fail("C20.order-statistic", "q=%v: lower=%v upper=%v quantile=%v; sorted values %s, ranks %d and %d", q, lo, up, qq, sx, elo, ehi)
				break
			}
		}
		if n > 0 {
			if d.Min() != xs[0] || d.Max() != xs[n-1] {
				fail("C20.extremes", "Min=%v Max=%v, exact %v and %v", d.Min(), d.Max(), xs[0], xs[n-1])
			}
			for _, fo := range firstObservers {
				if got, want := fo.call(w.rebuild().D[s]), fo.want(xs); got != want {
					fail("C20.first-query", "%s as the first query after the history answered %v, exact %v", fo.name, got, want)
				}
			}
			if got := w.rebuild().D[s].Sum(); math.Abs(got-d.Sum()) > 0 {
				fail("C20.first-query", "Sum() as the first query after the history answered %v, after other queries %v", got, d.Sum())
			}
		}
		var ent []Entry
		for _, v := range vals {
			ent = append(ent, Entry{v, 1})
		}
		sum, abs := bigSum(ent)
		if math.Abs(d.Sum()-sum) > 8*math.Ldexp(1, -53)*abs {
			fail("C20.sum", "Sum=%v, exact %v", d.Sum(), sum)
		}
		obs = append(obs, digest(observeDataset(d, n)))
	}
	return
}

func datasetScenario(tier string, long bool) *mc.Scenario[*DatasetWorld] {
	vals := []float64{-2, -1, 0, 1, 3.5}
	sc := &mc.Scenario[*DatasetWorld]{Name: "C20/datasets", Property: "C20", Depth: 6, Slots: 2, FrameClause: "C20.frame"}
	if tier == "thorough" {
		sc.Depth = 7
	}
	sc.Fresh = func() *DatasetWorld {
		return &DatasetWorld{D: [2]*dataset.Dataset{dataset.NewDataset(), dataset.NewDataset()}}
	}
	for s := 0; s < 2; s++ {
		s := s
		for vi, v := range vals {
			v := v
			if s == 1 && vi%2 == 1 {
				continue
			}
			sc.Ops = append(sc.Ops, dsOp(fmt.Sprintf("%s.Add(%s)", slotName(s), fstr(v)), 1<<uint(s),
				func(w *DatasetWorld) { w.D[s].Add(v); w.M[s] = append(w.M[s], v) }))
		}
		sc.Ops = append(sc.Ops, dsOp(fmt.Sprintf("query %s: LowerQuantile(0.5)", slotName(s)), 0,
			func(w *DatasetWorld) { w.D[s].LowerQuantile(0.5) }))
		sc.Ops = append(sc.Ops, dsOp(fmt.Sprintf("query %s: Sum, UpperQuantile(1)", slotName(s)), 0,
			func(w *DatasetWorld) { w.D[s].Sum(); w.D[s].UpperQuantile(1) }))
		sc.Ops = append(sc.Ops, dsOp(fmt.Sprintf("query %s: Min, Max", slotName(s)), 0,
			func(w *DatasetWorld) {
				if len(w.M[s]) > 0 { // the extremes of an empty dataset are not defined (and not claimed)
					w.D[s].Min()
					w.D[s].Max()
				}
			}))
	}
	sc.Ops = append(sc.Ops,
		// a dataset merged with itself holds every value twice
		dsOp("a.Merge(a)", 1, func(w *DatasetWorld) { w.D[0].Merge(w.D[0]); w.M[0] = append(w.M[0], w.M[0]...) }),
		dsOp("a.Merge(b)", 1, func(w *DatasetWorld) { w.D[0].Merge(w.D[1]); w.M[0] = append(w.M[0], w.M[1]...) }),
		dsOp("b.Merge(a)", 2, func(w *DatasetWorld) { w.D[1].Merge(w.D[0]); w.M[1] = append(w.M[1], w.M[0]...) }))
	sc.Dump = func(w *DatasetWorld, d *mc.Dumper) {
		for s := 0; s < 2; s++ {
			d.Value(w.D[s])
			xs := append([]float64{}, w.M[s]...)
			sort.Float64s(xs)
			d.Floats(xs)
		}
	}
	if long {
		// long inputs: a sum kept by plain accumulation drifts by about n/6 ulps
		many := func(s int, v float64, n int) mc.Op[*DatasetWorld] {
			return dsOp(fmt.Sprintf("%s.Add(%s) x %d", slotName(s), fstr(v), n), 1<<uint(s), func(w *DatasetWorld) {
				for i := 0; i < n; i++ {
					w.D[s].Add(v)
					w.M[s] = append(w.M[s], v)
				}
			})
		}
		sc.Name = "C20/datasets/long"
		sc.Depth = 2
		if tier == "thorough" {
			sc.Depth = 3
		}
		// many distinct values arriving in descending order (size thresholds of a
		// sorting strategy: a little above a power of two, not a multiple of 2, 4 or 8)
		desc := func(s int, n int) mc.Op[*DatasetWorld] {
			return dsOp(fmt.Sprintf("%s.Add(k) for k = %d down to 1", slotName(s), n), 1<<uint(s), func(w *DatasetWorld) {
				for i := n; i >= 1; i-- {
					w.D[s].Add(float64(i))
					w.M[s] = append(w.M[s], float64(i))
				}
			})
		}
		sc.Seeds = []mc.Seed[*DatasetWorld]{
			{Name: "512 x 0.1", Ops: []mc.Op[*DatasetWorld]{many(0, 0.1, 512)}},
			{Name: "300 x 7.3 and 300 x -7.3", Ops: []mc.Op[*DatasetWorld]{many(0, 7.3, 300), many(1, -7.3, 300)}},
			{Name: "8195 distinct values, descending", Ops: []mc.Op[*DatasetWorld]{desc(0, 8195)}},
		}
	}
	sc.Check = checkDataset
	sc.Explain = func(w *DatasetWorld, slot int) string { return observeDataset(w.D[slot], len(w.M[slot])) }
	sc.Abstract = func(w *DatasetWorld) (uint64, bool) {
		h := fnv.New64a()
		for s := 0; s < 2; s++ {
			xs := append([]float64{}, w.M[s]...)
			sort.Float64s(xs)
			fmt.Fprintf(h, "%v|", xs)
		}
		return h.Sum64(), len(w.M[0])+len(w.M[1]) > 0
	}
	return sc
}

func init() {
	mc.Register(&mc.Property{
		ID: "C20", Level: "model_checking",
		Rule:        "explicit-state BFS over histories of two real datasets: Add(v) for v in {-2,-1,0,1,3.5} (duplicates arise by repetition), queries as transitions (they sort lazily), Merge in both directions; a case is one distinct concrete state (values in their current order, count, the private sorted flag) with the multiset added; every state is compared with a sorted slice on count, min, max, sum and lower/upper/plain quantile at every q of Q(n) and at out-of-range q, and Min, Max, the extreme quantiles and Sum are each also asked as the very first query after the history on a rebuilt instance; frame clause: queries and being the argument of Merge change no answer; distinct_nontrivial counts distinct pairs of multisets",
		Assumptions: []string{"the rank may be computed exactly or as the float64 product q*(n-1) (both floors/ceilings are accepted)", "NaN as q is outside the stated domain and is not probed; Min/Max are queried on non-empty datasets only"},
		Shards: func(tier string) []mc.Shard {
			return []mc.Shard{mc.ShardOf(datasetScenario(tier, false), 10), mc.ShardOf(datasetScenario(tier, true), 1)}
		},
		ShardBudget: budget(240*time.Second, 12*time.Minute),
	})
}
