//go:build !verif

package props

// Native build (no overlay): map iteration order is the runtime's. Scenarios
// that need a deterministic order are not scheduled; order deviations are no-ops.
func SetMapOrder(f func(n int) []int) {}

func MapRanges() int64 { return 0 }
