package props

import (
	"fmt"
	"math"
	"time"

	"github.com/DataDog/sketches-go/ddsketch/mapping"

	"verif/mc"
)

// edgeValues builds the value alphabet of C01 from the mapping itself: zeros,
// sub-minimum magnitudes, the ends of the indexable range, bin edges and their
// float predecessors, ordinary values and a duplicate.
func edgeValues(m mapping.IndexMapping, k Kind, full bool) []float64 {
	mn, mx := m.MinIndexableValue(), m.MaxIndexableValue()
	L := m.LowerBound
	vs := []float64{0, 1, -1, L(1), math.Nextafter(L(1), 0), -L(2), 3.7, -3.7, mn / 2, -mn / 2, 1}
	if full {
		vs = append(vs, L(0), math.Nextafter(L(0), 0), L(-1), -math.Nextafter(L(2), 0), 1234.5, mn, math.Nextafter(mn, 1))
	}
	if k.K != 'D' {
		// array-backed stores would have to span the whole index range
		vs = append(vs, math.Nextafter(mn, 1), -math.Nextafter(mn, 1), mx, -mx, math.Nextafter(mx, 0))
	}
	return vs
}

func dedupFloats(xs []float64) []float64 {
	var out []float64
	seen := map[uint64]int{}
	for _, x := range xs {
		b := math.Float64bits(x)
		if seen[b] >= 1 {
			continue
		}
		seen[b]++
		out = append(out, x)
	}
	return out
}

func init() {
	mc.Register(&mc.Property{
		ID: "C01", Level: "model_checking",
		Rule: "explicit-state BFS over all sequences of Add(v) on a real sketch, v from an alphabet derived from the mapping (zeros, sub-minimum magnitudes, range ends, bin lower bounds and their float predecessors, ordinary values); a case is one distinct concrete sketch state together with the multiset it absorbed; every state is queried at every q of Q(n) = {0, 1, k/(n-1) and both float neighbours, mid-points, 5e-324, 1-2^-53} and each answer must be within alpha (plus the stated rounding allowance) of an order statistic at floor or ceil of q(n-1); q=0/1 must land in the bin of the true extreme; distinct_nontrivial counts distinct (content, multiset) pairs",
		Assumptions: []string{
			"rounding allowance eps(v)=2^-48+2^-49(|ln v|+|offset| ln gamma) relative, on top of alpha (DESIGN.md section 5)",
			"a value whose magnitude equals the smallest indexable value exactly may count as 0 or as itself",
			"inputs longer than the depth bound and values outside the alphabet are not explored; bin membership at every bin edge is covered by C03",
		},
		Shards: func(tier string) []mc.Shard {
			var specs []*SketchScenarioSpec
			for _, ms := range mapGrid(tier) {
				for _, k := range nonCollapsing {
					m := ms.New()
					vals := dedupFloats(edgeValues(m, k, tier == "thorough"))
					sp := &SketchScenarioSpec{Name: fmt.Sprintf("C01/%s/%s", ms, k), Property: "C01", Map: ms, Stores: []Kind{k}, Depth: 4,
						Checks: []func(*SketchWorld, int) []mc.Fail{checkC01()}}
					if tier == "thorough" {
						sp.Depth = 5
					}
					for _, v := range vals {
						sp.Ops = append(sp.Ops, skAdd(0, v))
					}
					// a query between additions (the observers of the oracle run on
					// disposable replays, so a read only perturbs where it is an operation)
					sp.Ops = append(sp.Ops, skRead(0))
					specs = append(specs, sp)
					// longer inputs: the same alphabet below macro seeds of 70-140 values
					// (compacted pages, a buffer beyond its trigger, a grown array, both
					// sides populated), so that ranks walk across layout boundaries
					lg := &SketchScenarioSpec{Name: fmt.Sprintf("C01/%s/%s/long", ms, k), Property: "C01", Map: ms, Stores: []Kind{k}, Depth: 2,
						Checks: []func(*SketchWorld, int) []mc.Fail{checkC01()}, Ops: sp.Ops}
					if tier == "thorough" {
						lg.Depth = 3
					}
					lg.Seeds = []mc.Seed[*SketchWorld]{
						skSeed("run-70", skAddRunV(0, 1.0, 70)),
						skSeed("scattered-both-sides", skAddRunStride(0, 1.0, 40, 3), skAddRunSigned(0, 1.0, 40, 3, -1), skAdd(0, 0)),
						skSeed("run-70-negative+run-33", skAddRunSigned(0, 1.0, 70, 1, -1), skAddRunV(0, 2.0, 33)),
						skSeed("duplicates-100", skAddRunStride(0, 5.0, 100, 0)),
					}
					specs = append(specs, lg)
				}
			}
			// mappings given by a base and an index offset other than the default, as a
			// decoder or the WithGamma constructors build them
			for i, mk := range []byte{'G', 'I', 'C'} {
				ms := MapSpec{Kind: mk, Gamma: 1.21, Offset: -2.5}
				k := nonCollapsing[i%len(nonCollapsing)]
				sp := &SketchScenarioSpec{Name: fmt.Sprintf("C01/%s/%s", ms, k), Property: "C01", Map: ms, Stores: []Kind{k}, Depth: 3,
					Checks: []func(*SketchWorld, int) []mc.Fail{checkC01()}}
				if tier == "thorough" {
					sp.Depth = 4
				}
				for _, v := range dedupFloats(edgeValues(ms.New(), k, tier == "thorough")) {
					sp.Ops = append(sp.Ops, skAdd(0, v))
				}
				sp.Ops = append(sp.Ops, skRead(0))
				specs = append(specs, sp)
			}
			// sketches built by the convenience constructors: the accuracy asked of
			// the constructor is the accuracy the answers must have
			alphas := []float64{0.1}
			if tier == "thorough" {
				alphas = []float64{0.1, 0.02, 0.5}
			}
			for _, a := range alphas {
				for _, cn := range []string{"NewDefaultDDSketch", "LogUnboundedDenseDDSketch", "NewDDSketchFromStoreProvider"} {
					c, a := ctorByName(cn), a
					ms := MapSpec{Kind: 'G', Alpha: a}
					k := c.Store(0)
					sp := &SketchScenarioSpec{Name: fmt.Sprintf("C01/%s(%s)", c.Name, fstr(a)), Property: "C01", Map: ms, Stores: []Kind{k}, Exact: c.Exact, Depth: 3,
						Checks: []func(*SketchWorld, int) []mc.Fail{checkC01()}, Ctor: func(int) *SkSlot { return c.New(a, 0) }}
					if tier == "thorough" {
						sp.Depth = 4
					}
					for _, v := range dedupFloats(edgeValues(ms.New(), k, tier == "thorough")) {
						sp.Ops = append(sp.Ops, skAdd(0, v))
					}
					sp.Ops = append(sp.Ops, skRead(0))
					specs = append(specs, sp)
				}
			}
			return shardsOfSketchSpecs(specs)
		},
		ShardBudget: budget(240*time.Second, 12*time.Minute),
	})

	mc.Register(&mc.Property{
		ID: "C02", Level: "model_checking",
		Rule: "explicit-state BFS over histories of Add / MergeWith / DecodeAndMergeWith / Clear on three real sketches sharing a mapping, store kinds mixed; a case is one distinct concrete state of the triple; after every transition each sketch must equal, observation for observation (bins, zero weight, count, extremes, quantiles, iteration), a single sketch of the same store kind fed its whole input one value at a time; the frame clause requires the argument of a merge (and every untouched sketch) to be observed unchanged; distinct_nontrivial counts distinct (contents, multisets) of the triple",
		Assumptions: []string{
			"at most three live sketches per history (any merge tree is a sequence of pairwise merges)",
			"unit weights; values from a six-value alphabet including 0, a bin edge and negatives",
		},
		Shards: func(tier string) []mc.Shard {
			var specs []*SketchScenarioSpec
			triples := [][]Kind{{{K: 'D'}, {K: 'S'}, {K: 'P'}}, {{K: 'P'}, {K: 'P'}, {K: 'D'}}, {{K: 'D'}, {K: 'D'}, {K: 'S'}}, {{K: 'S'}, {K: 'S'}, {K: 'P'}}}
			for _, ms := range mapGrid(tier) {
				for ti, tr := range triples {
					if tier == "quick" && ms.Alpha != 0.1 && ti > 0 {
						continue
					}
					m := ms.New()
					vals := []float64{0, 1, m.LowerBound(2), -1, 7.3, -7.3}
					sp := &SketchScenarioSpec{Name: fmt.Sprintf("C02/%s/%s+%s+%s", ms, tr[0], tr[1], tr[2]), Property: "C02", Map: ms, Stores: tr, Depth: 4,
						Frame: "C02.argument-unchanged", Checks: []func(*SketchWorld, int) []mc.Fail{checkC02}}
					if tier == "thorough" {
						sp.Depth = 5
					}
					for s := 0; s < 3; s++ {
						for vi, v := range vals {
							if s == 2 && vi >= 3 {
								continue
							}
							sp.Ops = append(sp.Ops, skAdd(s, v))
						}
					}
					for a := 0; a < 3; a++ {
						for b := 0; b < 3; b++ {
							if a != b {
								sp.Ops = append(sp.Ops, skMerge(a, b))
							}
						}
					}
					// queries as transitions: a read between two merges must not freeze anything
					sp.Ops = append(sp.Ops, skCodec(0, 1, false, false), skCodec(1, 2, false, true), skCodec(2, 0, false, false), skClear(0), skClear(1), skRead(0), skRead(1))
					// weighted inputs (fractional weights take other paths than unit entries
					// in a merge: pages against buffer, dense bins against map entries)
					sp.Ops = append(sp.Ops, skAddW(0, 1, 0.5), skAddW(1, 7.3, 0.25), skAddW(2, -1, 2))
					if tr[0].K == 'P' && tr[1].K == 'P' {
						// the paginated store merged with itself: a receiver whose pages were
						// allocated and cleared, an argument with two pages, a receiver whose
						// buffer is past its compaction trigger
						i0 := m.Index(1)
						sp.Seeds = []mc.Seed[*SketchWorld]{
							skSeed("empty"),
							skSeed("a-had-pages-and-was-cleared+b-has-two-pages", skAddW(0, m.Value(i0), 2), skAddW(0, m.Value(i0+40), 2), skClear(0), skAddW(1, m.Value(i0+1), 0.5), skAddW(1, m.Value(i0+41), 2)),
							skSeed("a-holds-100-scattered-entries", skAddRunStride(0, 1.0, 100, 3)),
						}
						sp.Depth--
					}
					// a sketch merged into itself holds its input twice
					sp.Ops = append(sp.Ops, skMerge(0, 0), skCodec(1, 1, false, false))
					if mc.MapOrderControlled {
						for _, ord := range mapOrders {
							for a := 0; a < 3; a++ {
								b := (a + 1) % 3
								if tr[b].K == 'S' {
									sp.Ops = append(sp.Ops, skWithOrder(skMerge(a, b), ord), skWithOrder(skCodec(a, b, false, false), ord))
								}
							}
						}
					}
					specs = append(specs, sp)
				}
			}
			return shardsOfSketchSpecs(specs)
		},
		ShardBudget: budget(240*time.Second, 12*time.Minute),
	})

	mc.Register(&mc.Property{
		ID: "C12", Level: "model_checking",
		Rule: "state invariant evaluated on every distinct state of two-slot sketch worlds (all five store kinds incl. collapsing, plain and exact-statistics variants) reached by bounded histories of Add / AddWithCount / MergeWith / Copy / Clear / Reweight / encode-decode; clauses: count = zero+positive+negative = absorbed weight, emptiness, extremes (bin of the clamped extreme; within alpha for unbounded stores), quantiles monotone and inside [min,max], batch = singles, approximate sum within alpha for same-signed data, iteration yields each non-empty bin once with positive weight summing to the count and stops at every position when asked; distinct_nontrivial counts distinct (contents, multisets)",
		Assumptions: []string{
			"dyadic weights so the absorbed weight is exact",
			"the sum clause is evaluated for plain sketches on unbounded stores when no value lies inside the zero bucket other than 0 itself",
		},
		Shards: func(tier string) []mc.Shard {
			var specs []*SketchScenarioSpec
			kinds := []Kind{{K: 'D'}, {K: 'S'}, {K: 'P'}, {K: 'L', N: 2}, {K: 'H', N: 3}}
			for _, ms := range mapGrid(tier) {
				for ki, k := range kinds {
					for _, exact := range []bool{false, true} {
						if tier == "quick" && ms.Alpha != 0.1 && !(ki == 0 && !exact) {
							continue
						}
						m := ms.New()
						sp := &SketchScenarioSpec{Name: fmt.Sprintf("C12/%s/%s/exact=%v", ms, k, exact), Property: "C12", Map: ms, Stores: []Kind{k, kinds[(ki+1)%len(kinds)]}, Exact: exact, Depth: 4,
							Checks: []func(*SketchWorld, int) []mc.Fail{checkC12()}}
						if tier == "thorough" {
							sp.Depth = 5
						}
						sp.Ops = generalSketchOps(m, k, exact)
						// zero-weight additions beyond the current extremes: nothing is absorbed
						sp.Ops = append(sp.Ops, skAddIgnored(0, 1e3, 0), skAddIgnored(0, -1e3, 0), skMergeRefused(0), skReweightRefused(0))
						specs = append(specs, sp)
					}
				}
			}
			// sketches built by the convenience constructors (slot a), partner built as usual
			for _, c := range sketchCtors {
				c := c
				ms := MapSpec{Kind: 'G', Alpha: 0.1}
				k := c.Store(3)
				sp := &SketchScenarioSpec{Name: fmt.Sprintf("C12/%s(0.1)", c.Name), Property: "C12", Map: ms, Stores: []Kind{k, {K: 'D'}}, Exact: c.Exact, Depth: 3,
					Checks: []func(*SketchWorld, int) []mc.Fail{checkC12()},
					Ctor: func(slot int) *SkSlot {
						if slot == 0 {
							return c.New(0.1, 3)
						}
						return nil
					}}
				if tier == "thorough" {
					sp.Depth = 4
				}
				sp.Ops = generalSketchOps(ms.New(), k, c.Exact)
				specs = append(specs, sp)
			}
			return shardsOfSketchSpecs(specs)
		},
		ShardBudget: budget(240*time.Second, 12*time.Minute),
	})
}

// generalSketchOps: the two-slot alphabet shared by the history properties.
func generalSketchOps(m mapping.IndexMapping, k Kind, exact bool) []skOp {
	mn := m.MinIndexableValue()
	vals := []float64{0, 1, -1, m.LowerBound(2), 7.3, -7.3, mn / 2, -m.LowerBound(40)}
	var ops []skOp
	for _, v := range vals {
		ops = append(ops, skAdd(0, v))
	}
	ops = append(ops, skAddW(0, 1, 0.5), skAddW(0, -7.3, 2), skAddW(0, 0, 0.25), skAddW(0, 7.3, 0.0009765625))
	ops = append(ops, skAdd(1, 1), skAdd(1, -7.3), skAdd(1, 0), skAddW(1, 1e3, 3))
	ops = append(ops, skMerge(0, 1), skMerge(1, 0), skCopy(0, 1), skCopy(1, 0), skClear(0), skClear(1),
		skReweight(0, 0.5), skReweight(0, 2), skCodec(0, 1, false, false), skCodec(0, 1, true, true), skCodec(1, 0, true, false), skRead(0), skReadEncode(0))
	if !exact {
		ops = append(ops, skProto(0, 1))
	}
	return ops
}
