package props

import (
	"fmt"
	"math"
	"time"

	"verif/mc"
)

// alphabetOpts selects operation families for a two-slot store world
// (slot a = kind under test, slot b = partner).
type alphabetOpts struct {
	idxA, idxB   []int
	weights      []float64 // weights for AddWithCount on a (besides unit Add)
	wIdx         int       // how many of idxA get weighted adds
	reweights    []float64
	codec, proto bool
	reads        bool
	copies       bool
	clearB       bool
	selfMerge    bool
	held         bool      // a protobuf message held across operations
	runs         []storeOp // extra macro operations
}

func dedupInts(xs []int) []int {
	seen := map[int]bool{}
	var out []int
	for _, x := range xs {
		if !seen[x] {
			seen[x] = true
			out = append(out, x)
		}
	}
	return out
}

func storeAlphabet(o alphabetOpts) []storeOp {
	var ops []storeOp
	o.idxA, o.idxB = dedupInts(o.idxA), dedupInts(o.idxB)
	for _, i := range o.idxA {
		ops = append(ops, opAdd(0, i))
	}
	for n, i := range o.idxA {
		if n >= o.wIdx {
			break
		}
		for _, w := range o.weights {
			ops = append(ops, opAddW(0, i, w))
		}
	}
	if len(o.idxA) > 0 && len(o.weights) > 0 {
		ops = append(ops, opAddBin(0, o.idxA[len(o.idxA)-1], 0.0009765625))
		// zero weight at an index of its own: the map does not change (no new
		// extreme index, no empty bin in the iteration)
		ops = append(ops, opAddW(0, o.idxA[len(o.idxA)-1]+7, 0), opAddBin(0, o.idxA[0]-3, 0))
		// a large weight next to the small ones (all sums stay exact: 2^20 + k/1024)
		ops = append(ops, opAddW(0, o.idxA[1], 1<<20))
	}
	for _, i := range o.idxB {
		ops = append(ops, opAdd(1, i))
	}
	if len(o.idxB) > 0 {
		ops = append(ops, opAddW(1, o.idxB[0], 2))
	}
	if len(o.idxB) > 1 {
		// a fractional weight on the partner (merged into a receiver that has no bin there yet)
		ops = append(ops, opAddW(1, o.idxB[1], 0.5))
	}
	ops = append(ops, o.runs...)
	if len(o.idxB) > 0 {
		ops = append(ops, opMerge(0, 1), opMerge(1, 0))
	}
	if o.selfMerge {
		ops = append(ops, opMergeSelf(0))
		if o.proto {
			ops = append(ops, opProtoSelf(0))
		}
	}
	if o.copies {
		ops = append(ops, opCopy(0, 1), opCopy(1, 0))
	}
	ops = append(ops, opClear(0))
	if o.clearB {
		ops = append(ops, opClear(1))
	}
	for _, f := range o.reweights {
		ops = append(ops, opReweight(0, f))
	}
	if o.codec {
		ops = append(ops, opCodec(0, 1, false), opCodec(0, 1, true), opCodec(1, 0, false), opCodec(0, 0, true))
	}
	if o.proto {
		ops = append(ops, opProto(0, 1, false), opProto(0, 1, true), opProto(1, 0, true))
	}
	if o.held {
		ops = append(ops, opHold(0), opMergeHeld(1))
		if o.proto {
			ops = append(ops, opProtoStream(1, 0))
		}
	}
	if o.reads {
		ops = append(ops, opReadIter(0), opReadEncode(0), opReadMisc(0), opReadStop(0))
	}
	return ops
}

// layout-edge index alphabets per kind of slot a
func idxFor(k Kind) []int {
	switch k.K {
	case 'D':
		// first array is 64 wide and centred on the first index: window edges of
		// a store first touched at 0 are -32/-33 and 31/32
		return []int{0, 31, 32, -32, -33, 1000}
	case 'S':
		return []int{0, 1, -1, 1000, -1000}
	case 'P':
		// pages are 32 wide; the page table starts 8 wide and centred
		return []int{0, 31, 32, -1, -33, 128, -129}
	default:
		n := k.N
		if n > 64 {
			return []int{0, 1, n - 1, n, n + 1, -1, -n, 3 * n, 31, 32, -32, -33}
		}
		return []int{0, 1, n - 1, n, n + 1, -1, -n, 3 * n}
	}
}

func idxPartner(a, b Kind) []int {
	switch a.K {
	case 'D':
		return []int{1, -40, 100}
	case 'S':
		return []int{0, 7, -300}
	case 'P':
		return []int{0, 33, -300}
	default:
		n := a.N
		return []int{0, n, -2 * n, 2*n + 1}
	}
}

// seeds: non-initial states whose layout transitions are out of reach of a
// small depth from an empty object
func seedsFor(k Kind, tier string) []mc.Seed[*StoreWorld] {
	out := []mc.Seed[*StoreWorld]{storeSeed("empty")}
	switch k.K {
	case 'D':
		out = append(out,
			storeSeed("window-full", opAddRun(0, -32, 64, 1)),
			storeSeed("grown-cleared", opAddRun(0, 0, 3, 70), opClear(0)),
		)
		if tier == "thorough" {
			out = append(out, storeSeed("grown-right", opAddRun(0, 0, 3, 70)), storeSeed("grown-left", opAddRun(0, 0, 3, -70)))
		}
	case 'P':
		out = append(out,
			storeSeed("buffer-63", opAddRun(0, 0, 63, 1)),
			storeSeed("buffer-64", opAddRun(0, 0, 64, 1)),
			storeSeed("buffer-65", opAddRun(0, 0, 65, 1)),
			storeSeed("one-page-32+buffer", opAddRun(0, 0, 32, 1), opAddRun(0, 64, 3, 40)),
			storeSeed("pages-with-gap", opAddW(0, 0, 2), opAddW(0, 320, 2), opAdd(0, 5), opAdd(0, 700)),
			storeSeed("pages-cleared", opAddW(0, 0, 2), opAddW(0, -320, 2), opAddRun(0, 0, 5, 1), opClear(0)),
			// a single page cleared: re-adding the same index re-uses the same page slot
			storeSeed("one-page-cleared", opAddW(0, 0, 2), opAdd(0, 5), opClear(0)),
		)
		if tier == "thorough" {
			out = append(out,
				storeSeed("buffer-31-one-page", opAddRun(0, 32, 31, 1)),
				storeSeed("buffer-33-one-page", opAddRun(0, 32, 32, 1), opAdd(0, 40)),
				storeSeed("compacted-then-cleared", opAddRun(0, 0, 66, 1), opClear(0)),
				storeSeed("far-pages", opAddW(0, 1<<20, 2), opAddW(0, -(1<<20), 2)),
			)
		}
	case 'L', 'H':
		n := k.N
		out = append(out,
			storeSeed("span-N-1", opAddRun(0, 0, 2, max(n-2, 1))),
			storeSeed("span-N", opAdd(0, 0), opAdd(0, n-1)),
			storeSeed("span-N+1", opAdd(0, 0), opAdd(0, n)),
			storeSeed("collapsed-cleared", opAdd(0, 0), opAdd(0, 3*n), opClear(0)),
			storeSeed("partner-wider-than-N", opAddRun(1, 0, 2, 2*n+5)),
		)
		if n >= 4 {
			// a partner that overhangs a narrow receiver on both sides by less than the
			// receiver's window (the receiver collapses without folding anything of its own)
			if k.K == 'L' {
				out = append(out, storeSeed("partner-overhangs-both-sides", opAdd(1, -1), opAdd(1, n/2)))
			} else {
				out = append(out, storeSeed("partner-overhangs-both-sides", opAdd(1, 1), opAdd(1, -(n/2))))
			}
		}
		if n > 64 {
			// the 64-cell array the store starts with is full although the bin limit is not reached
			out = append(out, storeSeed("first-array-full", opAddRun(0, -32, 64, 1)))
		}
	}
	return out
}

func partnersFor(a Kind, tier string) []Kind {
	switch a.K {
	case 'D':
		return []Kind{{K: 'D'}, {K: 'S'}, {K: 'P'}, {K: 'L', N: 4}}
	case 'S':
		return []Kind{{K: 'S'}, {K: 'D'}, {K: 'P'}, {K: 'H', N: 3}}
	case 'P':
		return []Kind{{K: 'P'}, {K: 'D'}, {K: 'S'}, {K: 'H', N: 4}}
	case 'L':
		ps := []Kind{{K: 'L', N: a.N}, {K: 'L', N: a.N + 3}, {K: 'H', N: a.N}, {K: 'D'}, {K: 'S'}, {K: 'P'}}
		if a.N > 1 {
			ps = append(ps, Kind{K: 'L', N: a.N - 1})
		}
		return ps
	default:
		ps := []Kind{{K: 'H', N: a.N}, {K: 'H', N: a.N + 3}, {K: 'L', N: a.N}, {K: 'D'}, {K: 'S'}, {K: 'P'}}
		if a.N > 1 {
			ps = append(ps, Kind{K: 'H', N: a.N - 1})
		}
		return ps
	}
}

// storeSpecs builds the two-slot scenarios for kinds under test.
func storeSpecs(prop string, under []Kind, tier string, depthQuick, depthThorough int, tune func(sp *StoreScenarioSpec, o *alphabetOpts)) []*StoreScenarioSpec {
	var out []*StoreScenarioSpec
	for _, a := range under {
		for _, b := range partnersFor(a, tier) {
			o := alphabetOpts{idxA: idxFor(a), idxB: idxPartner(a, b), weights: []float64{0.5, 2}, wIdx: 3,
				reweights: []float64{0.5, 2}, codec: true, proto: true, reads: true, copies: true, clearB: true}
			if a.K == 'S' && b.K == 'S' {
				// neither side needs an array or a page table: indexes at both ends of the int32 range
				o.idxA = append(o.idxA, math.MaxInt32-100, math.MinInt32+100)
				o.idxB = append(o.idxB, 1<<30)
			}
			sp := &StoreScenarioSpec{Name: fmt.Sprintf("%s/stores/%s+%s", prop, a, b), Property: prop,
				Kinds: []Kind{a, b}, Seeds: seedsFor(a, tier), Depth: depthQuick}
			if tier == "thorough" {
				sp.Depth = depthThorough
			}
			switch a.K {
			case 'S':
				sp.Depth++ // cheap: a read, then additions to existing bins, need four steps
			case 'P':
				// runs in descending order (the buffer is unsorted until a read), of the
				// same length as the seeds' runs
				o.runs = append(o.runs, opAddRun(0, 62, 63, -1), opAddRun(0, 2, 3, -1), opAddRun(0, 0, 3, 1))
			}
			if tune != nil {
				tune(sp, &o)
			}
			if tier == "thorough" && (a.K == 'D' || a.K == 'S') && prop == "C04" {
				sp.Depth++ // the array-backed and hash stores are cheap: one level deeper
			}
			sp.Ops = storeAlphabet(o)
			if mc.MapOrderControlled {
				// order deviations for the operations that walk a map: a sparse source
				// (merge, encode) or a protobuf bin map (sparse or paginated source)
				for _, ord := range mapOrders {
					if b.K == 'S' {
						sp.Ops = append(sp.Ops, withOrder(opMerge(0, 1), ord), withOrder(opCodec(0, 1, false), ord))
					}
					if a.K == 'S' {
						sp.Ops = append(sp.Ops, withOrder(opMerge(1, 0), ord), withOrder(opCodec(1, 0, false), ord), withOrder(opCodec(0, 0, true), ord))
					}
					if (b.K == 'S' || b.K == 'P') && o.proto {
						sp.Ops = append(sp.Ops, withOrder(opProto(0, 1, true), ord))
					}
					if (a.K == 'S' || a.K == 'P') && o.proto {
						sp.Ops = append(sp.Ops, withOrder(opProto(1, 0, true), ord))
					}
				}
			}
			if tier == "thorough" && a.K == 'P' && len(sp.Seeds) > 1 {
				// one shard per seed: the paginated worlds are the heavy ones and there
				// are fewer of them than cores (states shared between seeds are re-explored)
				for _, sd := range sp.Seeds {
					c := *sp
					c.Name = sp.Name + "/seed=" + sd.Name
					c.Seeds = []mc.Seed[*StoreWorld]{sd}
					out = append(out, &c)
				}
				continue
			}
			out = append(out, sp)
		}
	}
	return out
}

func shardsOfSpecs(specs []*StoreScenarioSpec) []mc.Shard {
	var out []mc.Shard
	for _, sp := range specs {
		sc := sp.Build()
		out = append(out, mc.ShardOf(sc, len(sc.Ops)*len(sc.Seeds)))
	}
	return out
}

func budget(quick, thorough time.Duration) func(string) time.Duration {
	return func(tier string) time.Duration {
		if tier == "thorough" {
			return thorough
		}
		return quick
	}
}

func init() {
	mc.Register(&mc.Property{
		ID: "C04", Level: "model_checking",
		Rule: "explicit-state BFS over operation histories executed on the real stores (successor = replay of the shortest history on fresh objects + 1 operation); a case is one distinct concrete state (reflective dump of all private fields incl. spare capacity) reached in a scenario; it is non-trivial when at least one store holds weight; distinct_nontrivial counts distinct abstract contents (index->weight maps of all slots) per scenario; every state is compared with the reference map on TotalCount, IsEmpty, Min/MaxIndex, ForEach, Bins and KeyAtRank at every cumulative boundary +-half the smallest weight",
		Assumptions: []string{
			"weights are dyadic so every sum the reference computes is exact",
			"histories are bounded by the stated depth below every seed; index alphabets are the layout edges listed per scenario",
			"map iteration order is the runtime's unless the overlay is active (see evidence field map_order_controlled)",
		},
		Shards: func(tier string) []mc.Shard {
			specs := storeSpecs("C04", []Kind{{K: 'D'}, {K: 'S'}, {K: 'P'}}, tier, 3, 4, func(sp *StoreScenarioSpec, o *alphabetOpts) {
				sp.ModelClause = true
				o.selfMerge = true
				o.held = true
			})
			return shardsOfSpecs(specs)
		},
		ShardBudget: budget(240*time.Second, 12*time.Minute),
	})
}

func collapsingKinds(tier string) []Kind {
	// 65 and 100 sit between the 64-slot allocation overhead and the next
	// power of two, where spare capacity left by append can exceed the limit
	ns := []int{1, 2, 3, 4, 8, 65, 100}
	if tier == "thorough" {
		ns = append(ns, 5, 16, 64, 127, 2048)
	}
	var out []Kind
	for _, n := range ns {
		out = append(out, Kind{K: 'L', N: n}, Kind{K: 'H', N: n})
	}
	return out
}

func init() {
	mc.Register(&mc.Property{
		ID: "C05", Level: "model_checking",
		Rule: "explicit-state BFS over operation histories on the real collapsing stores (both sides, bin limits N listed per scenario) paired with every other store kind and with collapsing stores of other limits; a case is one distinct concrete state; non-trivial when some store holds weight; distinct_nontrivial counts distinct abstract contents per scenario; every state is compared with the folding reference (exact content with every index beyond max-N+1 / min+N-1 folded into the edge), and must hold at most N bins over at most N consecutive indexes; a panic in any transition is a violation",
		Assumptions: []string{
			"weights are dyadic so every sum the reference computes is exact",
			"histories are bounded by the stated depth below every seed (seeds include spans N-1, N, N+1, collapsed-then-cleared, and a partner wider than N merged into an empty receiver)",
		},
		Shards: func(tier string) []mc.Shard {
			specs := storeSpecs("C05", collapsingKinds(tier), tier, 3, 4, func(sp *StoreScenarioSpec, o *alphabetOpts) {
				sp.ModelClause = true
				sp.SpanClause = true
				o.selfMerge = true
				if sp.Kinds[0].N >= 64 {
					sp.Depth = 3
				}
			})
			sh := shardsOfSpecs(specs)
			// sketch level: sketches backed by collapsing stores, merged with sketches of other kinds
			var sks []*SketchScenarioSpec
			alphas := []float64{0.5, 0.1}
			for _, a := range alphas {
				for _, k := range []Kind{{K: 'L', N: 2}, {K: 'H', N: 2}, {K: 'L', N: 4}, {K: 'H', N: 4}, {K: 'L', N: 8}, {K: 'H', N: 8}} {
					for pi, partner := range []Kind{{K: 'D'}, {K: 'L', N: 16}, {K: 'H', N: 3}, {K: 'P'}} {
						if tier == "quick" && pi >= 2 && a != 0.1 {
							continue
						}
						ms := MapSpec{Kind: 'G', Alpha: a}
						m := ms.New()
						sp := &SketchScenarioSpec{Name: fmt.Sprintf("C05/sketch/%s/%s+%s", ms, k, partner), Property: "C05", Map: ms, Stores: []Kind{k, partner}, Depth: 4,
							ContentClause: "C05.sketch-content", Checks: []func(*SketchWorld, int) []mc.Fail{checkC05Sketch}}
						if tier == "thorough" {
							sp.Depth = 5
						}
						i0 := m.Index(1)
						for _, d := range []int{0, 1, k.N - 1, k.N, k.N + 2, 3 * k.N} {
							sp.Ops = append(sp.Ops, skAdd(0, m.Value(i0+d)))
						}
						sp.Ops = append(sp.Ops, skAdd(0, 0), skAdd(0, -m.Value(i0)), skAdd(0, -m.Value(i0+k.N+1)),
							skAdd(1, m.Value(i0+1)), skAdd(1, m.Value(i0+2*k.N+3)), skAdd(1, -m.Value(i0+5)),
							skMerge(0, 1), skMerge(1, 0), skCopy(0, 1), skClear(0), skCodec(0, 1, false, false), skCodec(0, 1, true, true))
						sks = append(sks, sp)
						if pi == 0 && k.N <= 4 {
							// the same world with slot a built by the library's collapsing-sketch constructor
							cn := "LogCollapsingLowestDenseDDSketch"
							if k.K == 'H' {
								cn = "LogCollapsingHighestDenseDDSketch"
							}
							c, a, n := ctorByName(cn), a, k.N
							cs := *sp
							cs.Name = fmt.Sprintf("C05/sketch/%s(%s, %d)+%s", cn, fstr(a), n, partner)
							cs.Ctor = func(slot int) *SkSlot {
								if slot == 0 {
									return c.New(a, n)
								}
								return nil
							}
							sks = append(sks, &cs)
						}
					}
				}
			}
			return append(sh, shardsOfSketchSpecs(sks)...)
		},
		ShardBudget: budget(240*time.Second, 12*time.Minute),
	})
}
