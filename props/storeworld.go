package props

import (
	"bytes"
	"fmt"
	"hash/fnv"
	"reflect"
	"sort"
	"strconv"

	enc "github.com/DataDog/sketches-go/ddsketch/encoding"
	"github.com/DataDog/sketches-go/ddsketch/pb/sketchpb"
	"github.com/DataDog/sketches-go/ddsketch/store"

	"google.golang.org/protobuf/proto"

	"verif/mc"
	"verif/model"
)

// Kind names a store implementation. K: D dense, S sparse, P buffered-paginated,
// L / H collapsing lowest / highest with bin limit N.
type Kind struct {
	K byte
	N int
}

func (k Kind) String() string {
	switch k.K {
	case 'L', 'H':
		return fmt.Sprintf("%c%d", k.K, k.N)
	}
	return string(k.K)
}

func (k Kind) New() store.Store {
	switch k.K {
	case 'D':
		return store.NewDenseStore()
	case 'S':
		return store.NewSparseStore()
	case 'P':
		return store.NewBufferedPaginatedStore()
	case 'L':
		return store.NewCollapsingLowestDenseStore(k.N)
	case 'H':
		return store.NewCollapsingHighestDenseStore(k.N)
	}
	panic("unknown kind")
}

func (k Kind) Provider() store.Provider { return func() store.Store { return k.New() } }

func (k Kind) Model() *model.MapStore {
	switch k.K {
	case 'L':
		return model.NewFoldStore(k.N, true)
	case 'H':
		return model.NewFoldStore(k.N, false)
	}
	return model.NewMapStore()
}

func (k Kind) GoNew() string {
	switch k.K {
	case 'D':
		return "store.NewDenseStore()"
	case 'S':
		return "store.NewSparseStore()"
	case 'P':
		return "store.NewBufferedPaginatedStore()"
	case 'L':
		return fmt.Sprintf("store.NewCollapsingLowestDenseStore(%d)", k.N)
	}
	return fmt.Sprintf("store.NewCollapsingHighestDenseStore(%d)", k.N)
}

// StoreWorld is a tuple of real stores, their reference models and, when Twin
// is set, a twin tuple in which Clear is executed as "replace by a new object".
type StoreWorld struct {
	K []Kind
	R []store.Store
	M []*model.MapStore
	T []store.Store // twin world (C15, C14), nil otherwise
	// SkipReads: the twin world executes the same history with every read-only
	// operation left out (C14); otherwise the twin executes Clear as "replace by
	// a new object" (C15).
	SkipReads bool
	// a protobuf message held across operations (taken by opHold, consumed by
	// opMergeHeld), its twin, and the reference content at the time it was taken
	H, HT *sketchpb.Store
	HM    *model.MapStore
}

// the world the operation being applied belongs to (operations that need more
// than the slots: the held message)
var curStoreWorld *StoreWorld

// opHold: m = s.ToProto(), kept while other operations run.
func opHold(s int) storeOp {
	return storeOp{name: fmt.Sprintf("m = %s.ToProto()", slotName(s)), tag: "hold",
		real: func(st []store.Store, _ []Kind, twin bool) {
			pb := st[s].ToProto()
			if twin {
				curStoreWorld.HT = pb
			} else {
				curStoreWorld.H = pb
			}
		},
		mod: func(w *StoreWorld) {
			w.HM = w.K[s].Model()
			w.HM.N = 0 // the message holds the bins as they are, whatever store they go to next
			w.M[s].CopyInto(w.HM)
		}}
}

// opMergeHeld: store.MergeWithProto(t, m) with the message taken earlier.
func opMergeHeld(t int) storeOp {
	return storeOp{name: fmt.Sprintf("store.MergeWithProto(%s, m)", slotName(t)), tag: "proto", writes: 1 << uint(t),
		real: func(st []store.Store, _ []Kind, twin bool) {
			pb := curStoreWorld.H
			if twin {
				pb = curStoreWorld.HT
			}
			if pb != nil {
				store.MergeWithProto(st[t], pb)
			}
		},
		mod: func(w *StoreWorld) {
			if w.HM != nil {
				w.M[t].MergeFrom(w.HM)
			}
		}}
}

func dumpHeld(d *mc.Dumper, pb *sketchpb.Store) {
	if pb == nil {
		d.Tag('-')
		return
	}
	d.Tag('m')
	ks := make([]int, 0, len(pb.BinCounts))
	for k := range pb.BinCounts {
		ks = append(ks, int(k))
	}
	sort.Ints(ks)
	for _, k := range ks {
		d.Int(k)
		d.F64(pb.BinCounts[int32(k)])
	}
	d.Tag('/')
	d.Int(int(pb.ContiguousBinIndexOffset))
	for _, c := range pb.ContiguousBinCounts {
		d.F64(c)
	}
	d.Tag('|')
}

type storeOp struct {
	name   string
	real   func(st []store.Store, k []Kind, twin bool)
	mod    func(w *StoreWorld)
	writes uint32
	tag    string // "add", "merge", "copy", "clear", "reweight", "codec", "proto", "read"
	slot   int
	src    int
	factor float64
}

func slotName(s int) string { return string(rune('a' + s)) }

func fstr(x float64) string { return strconv.FormatFloat(x, 'g', -1, 64) }

// DecodeStoreBlocks feeds every block of an encoded store to dst.
func DecodeStoreBlocks(dst store.Store, b []byte) error {
	for len(b) > 0 {
		flag, err := enc.DecodeFlag(&b)
		if err != nil {
			return err
		}
		if err := dst.DecodeAndMergeWith(&b, flag.SubFlag()); err != nil {
			return err
		}
	}
	return nil
}

func mustBin(i int, w float64) store.Bin {
	b, err := store.NewBin(i, w)
	if err != nil {
		panic(err)
	}
	return *b
}

// drain reads a bin channel to completion (the producer goroutine always ends).
func drain(ch <-chan store.Bin) (out []store.Bin) {
	for b := range ch {
		out = append(out, b)
	}
	return
}

func opAdd(s, i int) storeOp {
	return storeOp{name: fmt.Sprintf("%s.Add(%d)", slotName(s), i), tag: "add", writes: 1 << uint(s),
		real: func(st []store.Store, _ []Kind, _ bool) { st[s].Add(i) },
		mod:  func(w *StoreWorld) { w.M[s].Add(i, 1) }}
}
func opAddW(s, i int, c float64) storeOp {
	return storeOp{name: fmt.Sprintf("%s.AddWithCount(%d, %s)", slotName(s), i, fstr(c)), tag: "add", writes: 1 << uint(s),
		real: func(st []store.Store, _ []Kind, _ bool) { st[s].AddWithCount(i, c) },
		mod:  func(w *StoreWorld) { w.M[s].Add(i, c) }}
}
func opAddBin(s, i int, c float64) storeOp {
	return storeOp{name: fmt.Sprintf("%s.AddBin(%d, %s)", slotName(s), i, fstr(c)), tag: "add", writes: 1 << uint(s),
		real: func(st []store.Store, _ []Kind, _ bool) { st[s].AddBin(mustBin(i, c)) },
		mod:  func(w *StoreWorld) { w.M[s].Add(i, c) }}
}

// opAddRun: n unit additions base, base+stride, ... (macro; reaches thresholds).
func opAddRun(s, base, n, stride int) storeOp {
	return storeOp{name: fmt.Sprintf("%s.AddRun(%d, n=%d, stride=%d)", slotName(s), base, n, stride), tag: "add", writes: 1 << uint(s),
		real: func(st []store.Store, _ []Kind, _ bool) {
			for j := 0; j < n; j++ {
				st[s].Add(base + j*stride)
			}
		},
		mod: func(w *StoreWorld) {
			for j := 0; j < n; j++ {
				w.M[s].Add(base+j*stride, 1)
			}
		}}
}
func opAddRunW(s, base, n, stride int, c float64) storeOp {
	return storeOp{name: fmt.Sprintf("%s.AddRunW(%d, n=%d, stride=%d, %s)", slotName(s), base, n, stride, fstr(c)), tag: "add", writes: 1 << uint(s),
		real: func(st []store.Store, _ []Kind, _ bool) {
			for j := 0; j < n; j++ {
				st[s].AddWithCount(base+j*stride, c)
			}
		},
		mod: func(w *StoreWorld) {
			for j := 0; j < n; j++ {
				w.M[s].Add(base+j*stride, c)
			}
		}}
}
func opMerge(a, b int) storeOp {
	return storeOp{name: fmt.Sprintf("%s.MergeWith(%s)", slotName(a), slotName(b)), tag: "merge", writes: 1 << uint(a),
		real: func(st []store.Store, _ []Kind, twin bool) {
			if twin && curStoreWorld != nil && curStoreWorld.SkipReads {
				// read-free twin: being the argument of a merge is a read too; the twin
				// merges a copy, so its argument is never touched
				st[a].MergeWith(st[b].Copy())
				return
			}
			st[a].MergeWith(st[b])
		},
		mod: func(w *StoreWorld) { w.M[a].MergeFrom(w.M[b]) }}
}

// opMergeSelf: a.MergeWith(a) doubles every weight.
func opMergeSelf(a int) storeOp {
	return storeOp{name: fmt.Sprintf("%s.MergeWith(%s)", slotName(a), slotName(a)), tag: "merge", writes: 1 << uint(a),
		real: func(st []store.Store, _ []Kind, _ bool) { st[a].MergeWith(st[a]) },
		mod:  func(w *StoreWorld) { w.M[a].Scale(2) }}
}

// opProtoStream: a receives what b's streaming protobuf writer wrote
// (EncodeProto -> Unmarshal -> MergeWithProto).
func opProtoStream(a, b int) storeOp {
	return storeOp{name: fmt.Sprintf("store.MergeWithProto(%s, Unmarshal(%s.EncodeProto()))", slotName(a), slotName(b)), tag: "proto", writes: 1 << uint(a),
		real: func(st []store.Store, _ []Kind, _ bool) {
			var buf bytes.Buffer
			st[b].EncodeProto(sketchpb.NewStoreBuilder(&buf))
			var pb sketchpb.Store
			if err := proto.Unmarshal(buf.Bytes(), &pb); err != nil {
				panic("the bytes of the streaming protobuf writer do not unmarshal: " + err.Error())
			}
			store.MergeWithProto(st[a], &pb)
		},
		mod: func(w *StoreWorld) { w.M[a].MergeFrom(w.M[b]) }}
}

// opProtoSelf: store.MergeWithProto(a, a.ToProto()) doubles every weight.
func opProtoSelf(a int) storeOp {
	return storeOp{name: fmt.Sprintf("store.MergeWithProto(%s, %s.ToProto())", slotName(a), slotName(a)), tag: "proto", writes: 1 << uint(a),
		real: func(st []store.Store, _ []Kind, _ bool) { store.MergeWithProto(st[a], st[a].ToProto()) },
		mod:  func(w *StoreWorld) { w.M[a].Scale(2) }}
}
func opCopy(a, b int) storeOp {
	return storeOp{name: fmt.Sprintf("%s = %s.Copy()", slotName(a), slotName(b)), tag: "copy", writes: 1 << uint(a), slot: a, src: b,
		real: func(st []store.Store, _ []Kind, _ bool) { st[a] = st[b].Copy() },
		mod: func(w *StoreWorld) {
			w.K[a] = w.K[b]
			m := w.K[b].Model()
			w.M[b].CopyInto(m)
			w.M[a] = m
		}}
}
func opClear(s int) storeOp {
	return storeOp{name: fmt.Sprintf("%s.Clear()", slotName(s)), tag: "clear", writes: 1 << uint(s),
		real: func(st []store.Store, k []Kind, twin bool) {
			if twin {
				st[s] = k[s].New()
			} else {
				st[s].Clear()
			}
		},
		mod: func(w *StoreWorld) { w.M[s].Clear() }}
}
func opReweight(s int, f float64) storeOp {
	return storeOp{name: fmt.Sprintf("%s.Reweight(%s)", slotName(s), fstr(f)), tag: "reweight", writes: 1 << uint(s), slot: s, factor: f,
		real: func(st []store.Store, _ []Kind, _ bool) {
			if err := st[s].Reweight(f); err != nil {
				panic("Reweight by a positive factor refused: " + err.Error())
			}
		},
		mod: func(w *StoreWorld) { w.M[s].Scale(f) }}
}

// opCodec: a.DecodeAndMergeWith(b.Encode()); with replace, a is first replaced
// by a new store of its kind.
func opCodec(a, b int, replace bool) storeOp {
	n := fmt.Sprintf("%s.DecodeAndMergeWith(%s.Encode())", slotName(a), slotName(b))
	if replace {
		n = fmt.Sprintf("%s = new; %s", slotName(a), n)
	}
	return storeOp{name: n, tag: "codec", writes: 1 << uint(a),
		real: func(st []store.Store, k []Kind, _ bool) {
			var buf []byte
			st[b].Encode(&buf, enc.FlagTypePositiveStore)
			if replace {
				st[a] = k[a].New()
			}
			if err := DecodeStoreBlocks(st[a], buf); err != nil {
				panic("decoding a store's own encoding failed: " + err.Error())
			}
		},
		mod: func(w *StoreWorld) {
			src := w.M[b]
			if replace {
				w.M[a] = w.K[a].Model()
			}
			w.M[a].MergeFrom(src)
		}}
}
func opProto(a, b int, replace bool) storeOp {
	n := fmt.Sprintf("store.MergeWithProto(%s, %s.ToProto())", slotName(a), slotName(b))
	if replace {
		n = fmt.Sprintf("%s = new; %s", slotName(a), n)
	}
	return storeOp{name: n, tag: "proto", writes: 1 << uint(a),
		real: func(st []store.Store, k []Kind, _ bool) {
			pb := st[b].ToProto()
			if replace {
				st[a] = k[a].New()
			}
			store.MergeWithProto(st[a], pb)
		},
		mod: func(w *StoreWorld) {
			src := w.M[b]
			if replace {
				w.M[a] = w.K[a].Model()
			}
			w.M[a].MergeFrom(src)
		}}
}

// read-only operations (kept as transitions: some stores reorganise on reads)
func opReadIter(s int) storeOp {
	return storeOp{name: fmt.Sprintf("read %s: KeyAtRank(0), ForEach, Bins", slotName(s)), tag: "read",
		real: func(st []store.Store, _ []Kind, _ bool) {
			if !st[s].IsEmpty() {
				st[s].KeyAtRank(0)
			}
			st[s].ForEach(func(int, float64) bool { return false })
			drain(st[s].Bins())
		},
		mod: func(*StoreWorld) {}}
}

// opReadStop: iterations that the callback stops early (after the first and
// after the second bin).
func opReadStop(s int) storeOp {
	return storeOp{name: fmt.Sprintf("read %s: ForEach stopped after 1 bin, after 2 bins", slotName(s)), tag: "read",
		real: func(st []store.Store, _ []Kind, _ bool) {
			for k := 1; k <= 2; k++ {
				n := 0
				st[s].ForEach(func(int, float64) bool { n++; return n >= k })
			}
		},
		mod: func(*StoreWorld) {}}
}
func opReadEncode(s int) storeOp {
	return storeOp{name: fmt.Sprintf("read %s: Encode", slotName(s)), tag: "read",
		real: func(st []store.Store, _ []Kind, _ bool) {
			var buf []byte
			st[s].Encode(&buf, enc.FlagTypePositiveStore)
		},
		mod: func(*StoreWorld) {}}
}

// opReadAll: every read-only operation in one step (the C15 worlds, where what
// matters is that something derived from the content may have been cached
// before the Clear).
func opReadAll(s int) storeOp {
	a, b, c, d := opReadIter(s), opReadEncode(s), opReadMisc(s), opReadStop(s)
	return storeOp{name: fmt.Sprintf("read %s: KeyAtRank(0), ForEach, Bins, Encode, TotalCount, MinIndex, MaxIndex, ToProto, Copy, ForEach stopped early", slotName(s)), tag: "read",
		real: func(st []store.Store, k []Kind, twin bool) {
			a.real(st, k, twin)
			b.real(st, k, twin)
			c.real(st, k, twin)
			d.real(st, k, twin)
		},
		mod: func(*StoreWorld) {}}
}
func opReadMisc(s int) storeOp {
	return storeOp{name: fmt.Sprintf("read %s: TotalCount, MinIndex, MaxIndex, ToProto, Copy", slotName(s)), tag: "read",
		real: func(st []store.Store, _ []Kind, _ bool) {
			st[s].TotalCount()
			st[s].MinIndex()
			st[s].MaxIndex()
			st[s].ToProto()
			st[s].Copy()
		},
		mod: func(*StoreWorld) {}}
}

// Map iteration order as an environment answer (DESIGN.md 2.6): the default
// answer is ascending keys; a deviation is another permutation, chosen for the
// duration of one operation. Any permutation is legal under the Go
// specification, so a violation under any of them is a real one.
type mapOrder struct {
	name string
	perm func(n int) []int
}

var mapOrders = []mapOrder{
	{"descending", func(n int) []int {
		p := make([]int, n)
		for i := range p {
			p[i] = n - 1 - i
		}
		return p
	}},
	{"rotated", func(n int) []int {
		p := make([]int, n)
		for i := range p {
			p[i] = (i + n/2 + 1) % n
		}
		return p
	}},
}

func withOrder(o storeOp, ord mapOrder) storeOp {
	inner := o.real
	o.name = "[map order " + ord.name + "] " + o.name
	o.real = func(st []store.Store, k []Kind, twin bool) {
		SetMapOrder(ord.perm)
		defer SetMapOrder(nil)
		inner(st, k, twin)
	}
	return o
}

func (o storeOp) toOp() mc.Op[*StoreWorld] {
	return mc.Op[*StoreWorld]{Name: o.name, Writes: o.writes, Do: func(w *StoreWorld) {
		curStoreWorld = w
		o.real(w.R, w.K, false)
		if w.T != nil {
			if !w.SkipReads {
				o.real(w.T, w.K, true)
			} else if o.tag != "read" {
				o.real(w.T, w.K, o.tag == "merge")
			}
		}
		o.mod(w)
	}}
}

// ObserveStore renders every observer of a real store canonically. Rank probes
// come from the reference content so that both sides answer the same questions.
func ObserveStore(s store.Store, ranks []float64) string {
	b := make([]byte, 0, 256)
	b = append(b, "total="...)
	b = strconv.AppendFloat(b, s.TotalCount(), 'g', -1, 64)
	b = append(b, " empty="...)
	b = strconv.AppendBool(b, s.IsEmpty())
	if i, err := s.MinIndex(); err != nil {
		b = append(b, " min=err"...)
	} else {
		b = append(b, " min="...)
		b = strconv.AppendInt(b, int64(i), 10)
	}
	if i, err := s.MaxIndex(); err != nil {
		b = append(b, " max=err"...)
	} else {
		b = append(b, " max="...)
		b = strconv.AppendInt(b, int64(i), 10)
	}
	type kv struct {
		k int
		w float64
	}
	var each []kv
	s.ForEach(func(i int, w float64) bool { each = append(each, kv{i, w}); return false })
	seen := map[int]bool{}
	flags := ""
	for _, e := range each {
		if seen[e.k] {
			flags += " DUPLICATE-KEY"
		}
		seen[e.k] = true
		if !(e.w > 0) {
			flags += " NON-POSITIVE-WEIGHT"
		}
	}
	sort.Slice(each, func(i, j int) bool { return each[i].k < each[j].k })
	b = append(b, " foreach={"...)
	for _, e := range each {
		b = strconv.AppendInt(b, int64(e.k), 10)
		b = append(b, ':')
		b = strconv.AppendFloat(b, e.w, 'g', -1, 64)
		b = append(b, ' ')
	}
	b = append(b, '}')
	b = append(b, flags...)
	// early stop at each of the first positions
	for j := 0; j < len(each) && j < 3; j++ {
		calls := 0
		s.ForEach(func(int, float64) bool { calls++; return calls == j+1 })
		if calls != j+1 {
			b = append(b, fmt.Sprintf(" FOREACH-CONTINUED-AFTER-STOP(%d->%d)", j+1, calls)...)
		}
	}
	b = append(b, " bins=["...)
	for _, bin := range drain(s.Bins()) {
		b = strconv.AppendInt(b, int64(bin.Index()), 10)
		b = append(b, ':')
		b = strconv.AppendFloat(b, bin.Count(), 'g', -1, 64)
		b = append(b, ' ')
	}
	b = append(b, "] ranks=["...)
	for _, r := range ranks {
		b = strconv.AppendFloat(b, r, 'g', -1, 64)
		b = append(b, "->"...)
		b = strconv.AppendInt(b, int64(s.KeyAtRank(r)), 10)
		b = append(b, ' ')
	}
	b = append(b, ']')
	return string(b)
}

// ObserveModel renders the same observation as predicted by the reference.
func ObserveModel(m *model.MapStore, ranks []float64) string {
	b := make([]byte, 0, 256)
	ks := m.Keys()
	var total float64
	for _, k := range ks {
		total += m.M[k]
	}
	b = append(b, "total="...)
	b = strconv.AppendFloat(b, total, 'g', -1, 64)
	b = append(b, " empty="...)
	b = strconv.AppendBool(b, len(ks) == 0)
	if len(ks) == 0 {
		b = append(b, " min=err max=err"...)
	} else {
		b = append(b, " min="...)
		b = strconv.AppendInt(b, int64(ks[0]), 10)
		b = append(b, " max="...)
		b = strconv.AppendInt(b, int64(ks[len(ks)-1]), 10)
	}
	b = append(b, " foreach={"...)
	for _, k := range ks {
		b = strconv.AppendInt(b, int64(k), 10)
		b = append(b, ':')
		b = strconv.AppendFloat(b, m.M[k], 'g', -1, 64)
		b = append(b, ' ')
	}
	b = append(b, "} bins=["...)
	for _, k := range ks {
		b = strconv.AppendInt(b, int64(k), 10)
		b = append(b, ':')
		b = strconv.AppendFloat(b, m.M[k], 'g', -1, 64)
		b = append(b, ' ')
	}
	b = append(b, "] ranks=["...)
	for _, r := range ranks {
		b = strconv.AppendFloat(b, r, 'g', -1, 64)
		b = append(b, "->"...)
		b = strconv.AppendInt(b, int64(model.KeyAtRankSorted(ks, m.M, r)), 10)
		b = append(b, ' ')
	}
	b = append(b, ']')
	return string(b)
}

func digest(s string) uint64 {
	h := fnv.New64a()
	h.Write([]byte(s))
	return h.Sum64()
}

// StoreScenarioSpec is the declarative form of one store-world scenario.
type StoreScenarioSpec struct {
	Name        string
	Property    string // property whose clauses the state oracle reports
	Kinds       []Kind
	Ops         []storeOp
	Seeds       []mc.Seed[*StoreWorld]
	Depth       int
	Twin        bool   // C15: main world vs twin world
	NoReadTwin  bool   // C14: twin world = the same history without its read-only operations
	Frame       string // frame clause name ("" = off)
	ModelClause bool   // compare every slot with its reference model
	SpanClause  bool   // bounded kinds: span and bin count <= N
	LastTags    []string
	Reweights   bool // C16 transition oracle on reweight operations
	CopyClause  bool // C14: a fresh copy is observed identical to its original
}

func storeSeed(name string, ops ...storeOp) mc.Seed[*StoreWorld] {
	s := mc.Seed[*StoreWorld]{Name: name}
	for _, o := range ops {
		s.Ops = append(s.Ops, o.toOp())
	}
	return s
}

func (sp *StoreScenarioSpec) Build() *mc.Scenario[*StoreWorld] {
	kinds := append([]Kind{}, sp.Kinds...)
	sc := &mc.Scenario[*StoreWorld]{Name: sp.Name, Property: sp.Property, Depth: sp.Depth, Slots: len(kinds), Seeds: sp.Seeds, FrameClause: sp.Frame}
	for _, o := range sp.Ops {
		sc.Ops = append(sc.Ops, o.toOp())
	}
	if sp.LastTags != nil {
		sc.LastOps = []int{}
		for i, o := range sp.Ops {
			for _, t := range sp.LastTags {
				if o.tag == t {
					sc.LastOps = append(sc.LastOps, i)
				}
			}
		}
	}
	sc.Fresh = func() *StoreWorld {
		w := &StoreWorld{K: append([]Kind{}, kinds...), SkipReads: sp.NoReadTwin}
		for _, k := range kinds {
			w.R = append(w.R, k.New())
			w.M = append(w.M, k.Model())
			if sp.Twin || sp.NoReadTwin {
				w.T = append(w.T, k.New())
			}
		}
		return w
	}
	sc.Dump = func(w *StoreWorld, d *mc.Dumper) {
		for i := range w.R {
			d.Str(w.K[i].String())
			d.Value(w.R[i])
			if w.T != nil {
				d.Value(w.T[i])
			}
			for _, k := range w.M[i].Keys() {
				d.Int(k)
				d.F64(w.M[i].M[k])
			}
			d.Tag('|')
		}
		if w.H != nil || w.HT != nil {
			dumpHeld(d, w.H)
			dumpHeld(d, w.HT)
			// the reference content of the held message is part of the state (a message
			// that aliases its store looks like one taken later)
			if w.HM != nil {
				for _, k := range w.HM.Keys() {
					d.Int(k)
					d.F64(w.HM.M[k])
				}
			}
			d.Tag('|')
		}
	}
	sc.Abstract = func(w *StoreWorld) (uint64, bool) {
		h := fnv.New64a()
		nt := false
		for i := range w.M {
			h.Write([]byte(w.K[i].String()))
			for _, k := range w.M[i].Keys() {
				nt = true
				fmt.Fprintf(h, "%d:%x,", k, w.M[i].M[k])
			}
			h.Write([]byte{'|'})
		}
		return h.Sum64(), nt
	}
	sc.Events = func(w *StoreWorld, ev map[string]int64) {
		for i := range w.R {
			storeLayoutEvents(w.R[i], ev)
		}
	}
	sc.Check = func(w *StoreWorld) (obs []uint64, fails []mc.Fail) {
		for i := range w.R {
			ranks := w.M[i].Ranks()
			real := ObserveStore(w.R[i], ranks)
			obs = append(obs, digest(real))
			if sp.ModelClause {
				if want := ObserveModel(w.M[i], ranks); real != want {
					fails = append(fails, mc.Fail{Clause: sp.Property + ".content",
						Detail: fmt.Sprintf("slot %s (%s) disagrees with the reference map\n  got:  %s\n  want: %s", slotName(i), w.K[i], real, want)})
				}
			}
			if sp.SpanClause && w.K[i].N > 0 && !w.R[i].IsEmpty() {
				lo, _ := w.R[i].MinIndex()
				hi, _ := w.R[i].MaxIndex()
				n := 0
				w.R[i].ForEach(func(int, float64) bool { n++; return false })
				if hi-lo+1 > w.K[i].N || n > w.K[i].N {
					fails = append(fails, mc.Fail{Clause: sp.Property + ".span",
						Detail: fmt.Sprintf("slot %s (%s) holds %d bins over [%d,%d], limit %d", slotName(i), w.K[i], n, lo, hi, w.K[i].N)})
				}
			}
			if sp.NoReadTwin {
				if twin := ObserveStore(w.T[i], ranks); real != twin {
					fails = append(fails, mc.Fail{Clause: "C14.reads-leave-no-trace",
						Detail: fmt.Sprintf("slot %s (%s): the same history without its read-only operations (and with every merge argument replaced by a copy) leads to other answers\n  with reads:    %s\n  without reads: %s", slotName(i), w.K[i], real, twin)})
				}
			}
			if sp.Twin {
				if twin := ObserveStore(w.T[i], ranks); real != twin {
					fails = append(fails, mc.Fail{Clause: "C15.clear-equals-new",
						Detail: fmt.Sprintf("slot %s (%s): the cleared-and-reused object differs from a twin that was replaced by a new object at each Clear\n  reused: %s\n  fresh:  %s", slotName(i), w.K[i], real, twin)})
				}
			}
		}
		return
	}
	sc.Explain = func(w *StoreWorld, slot int) string {
		return ObserveStore(w.R[slot], w.M[slot].Ranks())
	}
	if sp.CopyClause {
		sc.WantTransition = func(op int) bool { return sp.Ops[op].tag == "copy" }
		sc.Transition = func(parent, child *StoreWorld, op int) []mc.Fail {
			a, b := sp.Ops[op].slot, sp.Ops[op].src
			ranks := parent.M[b].Ranks()
			got, want := ObserveStore(child.R[a], ranks), ObserveStore(parent.R[b], ranks)
			if got != want {
				return []mc.Fail{{Clause: "C14.copy-equals-original", Detail: fmt.Sprintf("%s store: the copy is not observed like its original\n  copy:     %s\n  original: %s", parent.K[b], got, want)}}
			}
			return nil
		}
	}
	if sp.Reweights {
		factors := map[int]float64{}
		slots := map[int]int{}
		for i, o := range sp.Ops {
			if o.tag == "reweight" {
				factors[i], slots[i] = o.factor, o.slot
			}
		}
		sc.WantTransition = func(op int) bool { _, ok := factors[op]; return ok }
		sc.Transition = func(parent, child *StoreWorld, op int) []mc.Fail {
			f, sl := factors[op], slots[op]
			// the parent's own (real) content, scaled, is the expectation
			exp := model.NewMapStore()
			parent.R[sl].ForEach(func(i int, c float64) bool { exp.M[i] += c * f; return false })
			ranks := exp.Ranks()
			got := ObserveStore(child.R[sl], ranks)
			want := ObserveModel(exp, ranks)
			if got != want {
				return []mc.Fail{{Clause: "C16.store-scaled", Detail: fmt.Sprintf("slot %s (%s) after Reweight(%s) is not its previous content with every weight scaled\n  got:  %s\n  want: %s", slotName(sl), child.K[sl], fstr(f), got, want)}}
			}
			return nil
		}
	}
	return sc
}

// storeLayoutEvents counts layout features of reached concrete states, read by
// reflection (verdicts never depend on them; missing fields are skipped).
func storeLayoutEvents(s store.Store, ev map[string]int64) {
	v := reflect.ValueOf(s)
	if v.Kind() == reflect.Ptr {
		v = v.Elem()
	}
	t := v.Type().Name()
	field := func(v reflect.Value, name string) (reflect.Value, bool) {
		f := v.FieldByName(name)
		return f, f.IsValid()
	}
	switch t {
	case "DenseStore", "CollapsingLowestDenseStore", "CollapsingHighestDenseStore":
		dv := v
		if t != "DenseStore" {
			if f, ok := field(v, "DenseStore"); ok {
				dv = f
			}
			if f, ok := field(v, "isCollapsed"); ok && f.Kind() == reflect.Bool && f.Bool() {
				ev[t+".collapsed"]++
			}
		}
		if f, ok := field(dv, "bins"); ok && f.Kind() == reflect.Slice {
			switch n := f.Len(); {
			case n == 0:
				ev[t+".array-unallocated-or-cleared"]++
			case n <= 64:
				ev[t+".array-initial(<=64)"]++
			default:
				ev[t+".array-grown(>64)"]++
			}
			if f.Len() == 0 && f.Cap() > 0 {
				ev[t+".cleared-with-capacity"]++
			}
		}
	case "BufferedPaginatedStore":
		nb, np := 0, 0
		if f, ok := field(v, "buffer"); ok && f.Kind() == reflect.Slice {
			nb = f.Len()
		}
		if f, ok := field(v, "pages"); ok && f.Kind() == reflect.Slice {
			for i := 0; i < f.Len(); i++ {
				if f.Index(i).Len() > 0 {
					np++
				}
			}
			switch n := f.Len(); {
			case n == 0:
			case n <= 8:
				ev["paginated.page-table-initial(8)"]++
			default:
				ev["paginated.page-table-extended(>8)"]++
			}
		}
		switch {
		case nb > 0 && np > 0:
			ev["paginated.buffer-and-pages"]++
		case nb > 0:
			ev["paginated.buffer-only"]++
		case np > 0:
			ev["paginated.pages-only"]++
		}
		if f, ok := field(v, "bufferCompactionTriggerLen"); ok && f.Kind() == reflect.Int && f.Int() != 64 {
			ev["paginated.compaction-ran"]++
		}
	case "SparseStore":
		if f, ok := field(v, "counts"); ok && f.Kind() == reflect.Map {
			if f.Len() > 1 {
				ev["sparse.multi-key"]++
			}
		}
	}
}
