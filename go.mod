module verif

go 1.22

require (
	github.com/DataDog/sketches-go v0.0.0
	google.golang.org/protobuf v1.32.0
)

replace github.com/DataDog/sketches-go => /repo
