// Package replaytest replays recorded violations as a plain `go test`, without
// the explorer: every file named in VERIF_REPLAY (or, by default, every
// /verif/replays/*.json) is one sub-test that re-executes its operation list on
// the real code and evaluates the oracles of its scenario after every prefix.
//
//	bin/check.sh --replay-test [file]
package replaytest

import (
	"os"
	"path/filepath"
	"strings"
	"testing"

	"verif/mc"
	_ "verif/props"
)

func TestReplay(t *testing.T) {
	var files []string
	if v := os.Getenv("VERIF_REPLAY"); v != "" {
		files = strings.Fields(v)
	} else {
		dir := os.Getenv("VERIF_DIR")
		if dir == "" {
			dir = "/verif"
		}
		files, _ = filepath.Glob(filepath.Join(dir, "replays", "*.json"))
	}
	if len(files) == 0 {
		t.Skip("no replay files")
	}
	for _, f := range files {
		f := f
		t.Run(strings.TrimSuffix(filepath.Base(f), ".json"), func(t *testing.T) {
			prop, fails, err := mc.ReplayFile(f)
			if err != nil {
				t.Fatalf("cannot replay %s: %v", f, err)
			}
			for _, fl := range fails {
				t.Errorf("property %s, clause %s: %s", prop, fl.Clause, fl.Detail)
			}
		})
	}
}
