// Command check decides one property of /repo by bounded exhaustive
// exploration: check <property> <quick|thorough> | check -replay <file>.
package main

import (
	"verif/mc"
	_ "verif/props"
)

func main() { mc.Main() }
