// Package mc is the explicit-state exploration engine: replay-successor
// breadth-first search over operation histories executed on the real code,
// with a visited set keyed by a reflective dump of the private state.
package mc

import (
	"crypto/md5"
	"encoding/binary"
	"math"
	"reflect"
	"sort"
)

// Dumper accumulates a canonical byte rendering of concrete Go values,
// including unexported fields, slice capacity and the elements between len and
// cap (memory kept for reuse). It only reads: no method of the dumped value is
// ever called.
type Dumper struct {
	buf  []byte
	seen map[uintptr]int
}

func NewDumper() *Dumper { return &Dumper{seen: map[uintptr]int{}} }

func (d *Dumper) Reset() {
	d.buf = d.buf[:0]
	for k := range d.seen {
		delete(d.seen, k)
	}
}

func (d *Dumper) Bytes() []byte { return d.buf }

func (d *Dumper) Sum() [16]byte { return md5.Sum(d.buf) }

func (d *Dumper) U64(x uint64) {
	d.buf = binary.LittleEndian.AppendUint64(d.buf, x)
}
func (d *Dumper) Int(x int)     { d.U64(uint64(int64(x))) }
func (d *Dumper) F64(x float64) { d.U64(math.Float64bits(x)) }
func (d *Dumper) Str(s string)  { d.Int(len(s)); d.buf = append(d.buf, s...) }
func (d *Dumper) Tag(b byte)    { d.buf = append(d.buf, b) }
func (d *Dumper) Value(v any)   { d.dump(reflect.ValueOf(v)) }
func (d *Dumper) Floats(xs []float64) {
	d.Int(len(xs))
	for _, x := range xs {
		d.F64(x)
	}
}

func (d *Dumper) dump(v reflect.Value) {
	if !v.IsValid() {
		d.Tag('0')
		return
	}
	switch v.Kind() {
	case reflect.Bool:
		if v.Bool() {
			d.Tag('T')
		} else {
			d.Tag('F')
		}
	case reflect.Int, reflect.Int8, reflect.Int16, reflect.Int32, reflect.Int64:
		d.U64(uint64(v.Int()))
	case reflect.Uint, reflect.Uint8, reflect.Uint16, reflect.Uint32, reflect.Uint64, reflect.Uintptr:
		d.U64(v.Uint())
	case reflect.Float32, reflect.Float64:
		d.F64(v.Float())
	case reflect.String:
		d.Str(v.String())
	case reflect.Ptr:
		if v.IsNil() {
			d.Tag('n')
			return
		}
		p := v.Pointer()
		if id, ok := d.seen[p]; ok {
			// aliasing inside one dump is part of the state (shared objects)
			d.Tag('@')
			d.Int(id)
			return
		}
		d.seen[p] = len(d.seen)
		d.Tag('*')
		d.dump(v.Elem())
	case reflect.Interface:
		if v.IsNil() {
			d.Tag('n')
			return
		}
		e := v.Elem()
		d.Str(e.Type().String())
		d.dump(e)
	case reflect.Struct:
		d.Tag('{')
		for i := 0; i < v.NumField(); i++ {
			d.dump(v.Field(i))
		}
		d.Tag('}')
	case reflect.Slice:
		if v.IsNil() {
			d.Tag('n')
			return
		}
		d.Tag('[')
		d.Int(v.Len())
		d.Int(v.Cap())
		if v.Cap() > 0 {
			// alias detection for backing arrays
			full := v.Slice(0, v.Cap())
			p := full.Pointer()
			if id, ok := d.seen[p]; ok {
				d.Tag('@')
				d.Int(id)
			} else {
				d.seen[p] = len(d.seen)
			}
			for i := 0; i < full.Len(); i++ {
				d.dump(full.Index(i))
			}
		}
		d.Tag(']')
	case reflect.Array:
		d.Tag('[')
		for i := 0; i < v.Len(); i++ {
			d.dump(v.Index(i))
		}
		d.Tag(']')
	case reflect.Map:
		if v.IsNil() {
			d.Tag('n')
			return
		}
		d.Tag('M')
		d.Int(v.Len())
		type kv struct {
			k []byte
			v reflect.Value
		}
		var kvs []kv
		it := v.MapRange()
		for it.Next() {
			sub := &Dumper{seen: d.seen}
			sub.dump(it.Key())
			kvs = append(kvs, kv{sub.buf, it.Value()})
		}
		sort.Slice(kvs, func(i, j int) bool { return string(kvs[i].k) < string(kvs[j].k) })
		for _, e := range kvs {
			d.buf = append(d.buf, e.k...)
			d.dump(e.v)
		}
	case reflect.Func, reflect.Chan, reflect.UnsafePointer:
		d.Tag('f')
	default:
		panic("mc.Dumper: unsupported kind " + v.Kind().String())
	}
}
