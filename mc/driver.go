package mc

import (
	"bufio"
	"bytes"
	"encoding/json"
	"fmt"
	"os"
	"os/exec"
	"path/filepath"
	"runtime"
	"runtime/debug"
	"runtime/pprof"
	"sort"
	"strconv"
	"strings"
	"sync"
	"sync/atomic"
	"time"
)

// Shard is one independently explorable unit (usually one scenario).
type Shard struct {
	Name string
	Run  func(deadline time.Time) *Result
	// Replay re-executes one recorded history of this shard's scenario.
	Replay func(seed string, history []string) ([]Fail, error)
	// Weight orders shards (heaviest first) for load balance.
	Weight int
}

// Property is the registration of one check.
type Property struct {
	ID          string
	Level       string // evidence level: model_checking | exploration | fault_enumeration
	Rule        string
	Assumptions []string
	// Shards lists the units of a tier ("quick" | "thorough").
	Shards func(tier string) []Shard
	// ShardBudget is the internal deadline of one shard.
	ShardBudget func(tier string) time.Duration
	// Predicates name history predicates usable in KNOWN_FINDINGS.txt.
	Predicates map[string]func(Violation) bool
}

var Registry = map[string]*Property{}

// MapOrderControlled is true when the binary was built with the map-order
// overlay (DESIGN.md 2.5).
var MapOrderControlled bool

func Register(p *Property) { Registry[p.ID] = p }

type knownLine struct {
	Property, Clause, Where, Text string
}

func loadKnown(path string) (known []knownLine, fixed []string) {
	f, err := os.Open(path)
	if err != nil {
		return
	}
	defer f.Close()
	sc := bufio.NewScanner(f)
	for sc.Scan() {
		line := strings.TrimSpace(sc.Text())
		switch {
		case strings.HasPrefix(line, "known:"):
			k := knownLine{}
			rest := strings.Fields(strings.TrimPrefix(line, "known:"))
			var text []string
			for _, w := range rest {
				switch {
				case strings.HasPrefix(w, "property=") && k.Property == "":
					k.Property = strings.TrimPrefix(w, "property=")
				case strings.HasPrefix(w, "clause=") && k.Clause == "":
					k.Clause = strings.TrimPrefix(w, "clause=")
				case strings.HasPrefix(w, "where=") && k.Where == "":
					k.Where = strings.TrimPrefix(w, "where=")
				default:
					text = append(text, w)
				}
			}
			k.Text = strings.Join(text, " ")
			known = append(known, k)
		case strings.HasPrefix(line, "fixed:"):
			fixed = append(fixed, line)
		}
	}
	return
}

func verifDir() string {
	if d := os.Getenv("VERIF_DIR"); d != "" {
		return d
	}
	return "/verif"
}

// outDir is where evidence and replay files go (VERIF_OUT is a development
// aid for runs against scratch checkouts; registered commands never set it).
func outDir() string {
	if d := os.Getenv("VERIF_OUT"); d != "" {
		return d
	}
	return verifDir()
}

// Main is the entry point of cmd/check.
func Main() {
	args := os.Args[1:]
	if len(args) >= 1 && args[0] == "-worker" {
		workerMain(args[1:])
		return
	}
	if len(args) >= 2 && (args[0] == "-replay" || args[0] == "--replay") {
		os.Exit(replayMain(args[1]))
	}
	if len(args) >= 1 && args[0] == "-one" {
		oneMain(args[1:])
		return
	}
	if len(args) >= 1 && args[0] == "-list" {
		ids := []string{}
		for id := range Registry {
			ids = append(ids, id)
		}
		sort.Strings(ids)
		fmt.Println(strings.Join(ids, " "))
		return
	}
	if len(args) < 2 {
		fmt.Fprintln(os.Stderr, "usage: check <property> <quick|thorough> | check -replay <file>")
		os.Exit(2)
	}
	os.Exit(driverMain(args[0], args[1]))
}

func workerMain(args []string) {
	// args: property tier shardIndex deadlineUnixMilli
	runtime.GOMAXPROCS(1)
	p := Registry[args[0]]
	shards := p.Shards(args[1])
	idx, _ := strconv.Atoi(args[2])
	ms, _ := strconv.ParseInt(args[3], 10, 64)
	deadline := time.UnixMilli(ms)
	sh := shards[idx]
	startWatchdog(sh.Name)
	if pf := os.Getenv("VERIF_CPUPROFILE"); pf != "" {
		f, _ := os.Create(pf)
		pprof.StartCPUProfile(f)
		defer pprof.StopCPUProfile()
	}
	res := sh.Run(deadline)
	if res.Scenario == "" {
		res.Scenario = sh.Name
	}
	out, _ := json.Marshal(res)
	os.Stdout.Write(out)
	os.Stdout.Write([]byte("\n"))
}

// oneMain executes a single history of one shard (used to pin a hang or a
// memory blow-up to one history): args = property tier shardIndex historyJSON.
func oneMain(args []string) {
	runtime.GOMAXPROCS(1)
	p := Registry[args[0]]
	shards := p.Shards(args[1])
	idx, _ := strconv.Atoi(args[2])
	var st StuckHistory
	if err := json.Unmarshal([]byte(args[3]), &st); err != nil {
		os.Exit(2)
	}
	go func() {
		for {
			time.Sleep(200 * time.Millisecond)
			var ms runtime.MemStats
			runtime.ReadMemStats(&ms)
			if ms.HeapAlloc > 4<<30 {
				os.Exit(3)
			}
		}
	}()
	if shards[idx].Replay != nil {
		fails, err := shards[idx].Replay(st.Seed, st.History)
		if err != nil {
			fmt.Println("replay-error: " + err.Error())
		}
		for _, f := range fails {
			fmt.Println("failed-clause: " + f.Clause)
		}
	}
	fmt.Println("completed")
}

// startWatchdog reports a transition that does not finish (or a heap that
// explodes) by naming the operation history in flight, then exits. A hang is
// only turned into a verdict by the driver after it reproduced in isolation.
func startWatchdog(shard string) {
	limit := 30 * time.Second
	go func() {
		last, lastChange := int64(-1), time.Now()
		for {
			time.Sleep(500 * time.Millisecond)
			t := atomic.LoadInt64(&Current.Tick)
			if t != last {
				last, lastChange = t, time.Now()
			}
			var ms runtime.MemStats
			stuck := time.Since(lastChange) > limit && t > 0
			big := false
			if stuck || t%8 == 0 {
				runtime.ReadMemStats(&ms)
				big = ms.HeapAlloc > 6<<30
			}
			if stuck || big {
				kind := "no-hang"
				if big {
					kind = "no-crash"
				}
				res := &Result{Scenario: shard, Incidents: []string{fmt.Sprintf("%s: transition #%d did not finish (stuck=%v heap=%dMB); history in flight: %s", kind, t, stuck, ms.HeapAlloc>>20, InFlight())}}
				if seed, hist := InFlightOps(); hist != nil {
					res.Stuck = &StuckHistory{Kind: kind, Scenario: shard, Seed: seed, History: hist}
				}
				out, _ := json.Marshal(res)
				os.Stdout.Write(out)
				os.Stdout.Write([]byte("\n"))
				os.Exit(3)
			}
		}
	}()
}

// InFlight is set by scenarios' engines to render the history being executed.
var InFlight = func() string { return "" }

// InFlightOps names the history being executed (seed name, operation names).
var InFlightOps = func() (seed string, history []string) { return "", nil }

// Progress is called by the shards that enumerate inputs without the explorer,
// once per input: it advances the watchdog's tick and records how to describe
// the input being evaluated (rendered only if the evaluation never returns).
func Progress(desc func() string) {
	progressDesc = desc
	atomic.AddInt64(&Current.Tick, 1)
}

var progressDesc func() string

// ProgressInput is the allocation-free variant for shards that evaluate
// hundreds of millions of small inputs: a label, a byte string and an integer.
func ProgressInput(label string, b []byte, u uint64) {
	progressLabel, progressBytes, progressU = label, b, u
	if progressDesc == nil {
		progressDesc = func() string {
			return fmt.Sprintf("%s % x %d (bits %#x)", progressLabel, progressBytes, progressU, progressU)
		}
	}
	atomic.AddInt64(&Current.Tick, 1)
}

var (
	progressLabel string
	progressBytes []byte
	progressU     uint64
)

func init() {
	InFlight = func() string {
		if progressDesc != nil {
			return progressDesc()
		}
		return ""
	}
	InFlightOps = func() (string, []string) {
		if progressDesc != nil {
			return "input", []string{progressDesc()}
		}
		return "", nil
	}
}

type evidence struct {
	PropertyID  string         `json:"property_id"`
	Tier        string         `json:"tier"`
	Seed        int            `json:"seed"`
	Level       string         `json:"level"`
	Coverage    map[string]any `json:"coverage"`
	Assumptions []string       `json:"assumptions"`
	WallS       float64        `json:"wall_s"`
	Violations  int            `json:"violations"`
}

func driverMain(id, tier string) int {
	start := time.Now()
	p := Registry[id]
	if p == nil {
		fmt.Fprintf(os.Stderr, "unknown property %s\n", id)
		return 2
	}
	if tier != "quick" && tier != "thorough" {
		fmt.Fprintln(os.Stderr, "tier must be quick or thorough")
		return 2
	}
	seed, _ := strconv.Atoi(os.Getenv("VERIF_SEED"))
	var shards []Shard
	setupPanic := ""
	func() {
		defer func() {
			if r := recover(); r != nil {
				setupPanic = fmt.Sprintf("%v\n%s", r, trimStack(string(debug.Stack())))
			}
		}()
		shards = p.Shards(tier)
	}()
	if setupPanic != "" {
		// the scenarios of this property could not even be built: a constructor of
		// the library refused (or crashed on) a configuration inside the property's
		// domain (every scenario is built from documented-valid parameters only)
		os.MkdirAll(filepath.Join(outDir(), "replays"), 0o755)
		path := filepath.Join(outDir(), "replays", fmt.Sprintf("%s-setup.json", id))
		rep := map[string]any{"property": id, "clause": id + ".valid-configuration-refused", "check": id, "tier": tier, "scenario": "(building the scenarios)",
			"history": []string{}, "detail": setupPanic}
		b, _ := json.MarshalIndent(rep, "", " ")
		os.WriteFile(path, append(b, '\n'), 0o644)
		fmt.Printf("VIOLATION property=%s replay=%s\n  clause=%s.valid-configuration-refused\n  the library refused or crashed on a valid configuration while the scenarios of this check were being built:\n  %s\n", id, path, id, strings.ReplaceAll(setupPanic, "\n", "\n  "))
		ev := evidence{PropertyID: id, Tier: tier, Seed: seed, Level: p.Level, Assumptions: p.Assumptions, WallS: round3(time.Since(start).Seconds()), Violations: 1,
			Coverage: map[string]any{"evaluations": 0, "distinct_nontrivial": 0, "states": 0, "transitions": 0, "traces_validated_against_impl": 0, "rule": p.Rule,
				"samples": []any{"no scenario could be built: " + setupPanic}, "exhaustive": false}}
		os.MkdirAll(filepath.Join(outDir(), "evidence"), 0o755)
		eb, _ := json.MarshalIndent(ev, "", " ")
		os.WriteFile(filepath.Join(outDir(), "evidence", id+".json"), append(eb, '\n'), 0o644)
		return 1
	}
	budget := p.ShardBudget(tier)
	order := make([]int, 0, len(shards))
	for i := range shards {
		// VERIF_ONLY: development aid (never set by a registered command) - run only the
		// scenarios whose name contains the substring
		if only := os.Getenv("VERIF_ONLY"); only != "" && !strings.Contains(shards[i].Name, only) {
			continue
		}
		order = append(order, i)
	}
	sort.SliceStable(order, func(a, b int) bool { return shards[order[a]].Weight > shards[order[b]].Weight })
	if seed != 0 && len(order) > 1 {
		// the seed only rotates scheduling order among equal weights
		r := seed % len(order)
		if r < 0 {
			r = -r
		}
		rot := append(append([]int{}, order[r:]...), order[:r]...)
		sort.SliceStable(rot, func(a, b int) bool { return shards[rot[a]].Weight > shards[rot[b]].Weight })
		order = rot
	}
	ncpu := runtime.NumCPU()
	if v, err := strconv.Atoi(os.Getenv("VERIF_WORKERS")); err == nil && v > 0 {
		ncpu = v
	}
	exe, _ := os.Executable()
	results := make([]*Result, len(shards))
	var mu sync.Mutex
	var incidents []string
	var pinned int32 // set once a hang or crash has been pinned and confirmed
	jobs := make(chan int)
	var wg sync.WaitGroup
	for w := 0; w < ncpu; w++ {
		wg.Add(1)
		go func() {
			defer wg.Done()
			for i := range jobs {
				deadline := time.Now().Add(budget)
				cmd := exec.Command(exe, "-worker", id, tier, strconv.Itoa(i), strconv.FormatInt(deadline.UnixMilli(), 10))
				cmd.Env = append(os.Environ(), "GOMAXPROCS=1", "GOMEMLIMIT=5GiB")
				var out, errb bytes.Buffer
				cmd.Stdout, cmd.Stderr = &out, &errb
				done := make(chan error, 1)
				if err := cmd.Start(); err != nil {
					mu.Lock()
					incidents = append(incidents, fmt.Sprintf("shard %s: cannot start worker: %v", shards[i].Name, err))
					mu.Unlock()
					continue
				}
				go func() { done <- cmd.Wait() }()
				var werr error
				killed := false
				select {
				case werr = <-done:
				case <-time.After(budget + 90*time.Second):
					cmd.Process.Kill()
					werr = fmt.Errorf("killed after overrunning its budget")
					killed = true
					<-done
				}
				var res Result
				lines := bytes.Split(bytes.TrimSpace(out.Bytes()), []byte("\n"))
				ok := len(lines) > 0 && json.Unmarshal(lines[len(lines)-1], &res) == nil
				if !ok && !killed {
					// the worker died without a verdict: once more, with a journal that
					// names the transition in flight
					jpath := filepath.Join(verifDir(), ".build", fmt.Sprintf("journal.%d.%d", os.Getpid(), i))
					os.MkdirAll(filepath.Dir(jpath), 0o755)
					deadline2 := time.Now().Add(budget)
					c2 := exec.Command(exe, "-worker", id, tier, strconv.Itoa(i), strconv.FormatInt(deadline2.UnixMilli(), 10))
					c2.Env = append(os.Environ(), "GOMAXPROCS=1", "GOMEMLIMIT=5GiB", "VERIF_JOURNAL="+jpath)
					var out2, err2 bytes.Buffer
					c2.Stdout, c2.Stderr = &out2, &err2
					d2 := make(chan error, 1)
					var werr2 error
					if c2.Start() == nil {
						go func() { d2 <- c2.Wait() }()
						select {
						case werr2 = <-d2:
						case <-time.After(budget + 90*time.Second):
							c2.Process.Kill()
							werr2 = fmt.Errorf("killed after overrunning its budget")
							<-d2
						}
					}
					lines2 := bytes.Split(bytes.TrimSpace(out2.Bytes()), []byte("\n"))
					var res2 Result
					if len(lines2) > 0 && json.Unmarshal(lines2[len(lines2)-1], &res2) == nil {
						// not reproduced: keep the second run's verdicts, note the incident
						res, ok = res2, true
						res.Incidents = append(res.Incidents, fmt.Sprintf("shard %s: a first worker ended abnormally (%v) and a second run completed", shards[i].Name, werr))
						werr = werr2
						out, errb = out2, err2
					} else {
						tail := strings.TrimSpace(err2.String())
						if len(tail) > 1500 {
							tail = tail[:1500]
						}
						crashed := strings.Contains(tail, "panic:") || strings.Contains(tail, "fatal error:") || strings.Contains(tail, "goroutine ")
						var st StuckHistory
						jb, _ := os.ReadFile(jpath)
						if json.Unmarshal(bytes.TrimSpace(jb), &st) == nil && st.Scenario != "" {
							st.Kind = "no-crash"
							res.Stuck = &st
							res.Scenario = shards[i].Name
							res.Incidents = append(res.Incidents, fmt.Sprintf("no-crash: the worker of shard %s died twice; transition in flight: [%s] %s; stderr: %s", shards[i].Name, st.Seed, strings.Join(st.History, "; "), tail))
							ok = true
						} else if crashed && werr2 != nil && !strings.Contains(werr2.Error(), "killed") {
							// died twice before any transition of the explorer (or in a shard that
							// enumerates without it), with a runtime crash report
							res = Result{Scenario: shards[i].Name, Property: id}
							res.Violations = append(res.Violations, Violation{Property: id, Clause: id + ".no-crash", Scenario: shards[i].Name,
								History: []string{"(the process crashes; no single history could be named)"},
								Detail:  "the worker process of this shard crashed twice in the same way: " + tail, Params: "stuck"})
							ok = true
						}
					}
					os.Remove(jpath)
				}
				if ok && res.Stuck != nil && atomic.LoadInt32(&pinned) != 0 {
					// a hang or crash has already been pinned and confirmed in this check:
					// further stuck shards are listed, not pinned again (each confirmation
					// costs up to a shard's budget)
					res.Incidents = append(res.Incidents, fmt.Sprintf("%s in shard %s (not pinned: another one was already confirmed): [%s] %s", res.Stuck.Kind, shards[i].Name, res.Stuck.Seed, strings.Join(res.Stuck.History, "; ")))
					res.Stuck = nil
				}
				if ok && res.Stuck != nil && res.Stuck.Seed == "input" {
					// a shard that enumerates inputs without the explorer: the same worker once
					// more; it must get stuck on the same input again
					deadline2 := time.Now().Add(budget)
					c2 := exec.Command(exe, "-worker", id, tier, strconv.Itoa(i), strconv.FormatInt(deadline2.UnixMilli(), 10))
					c2.Env = append(os.Environ(), "GOMAXPROCS=1", "GOMEMLIMIT=5GiB")
					var out2 bytes.Buffer
					c2.Stdout = &out2
					d2 := make(chan error, 1)
					if c2.Start() == nil {
						go func() { d2 <- c2.Wait() }()
						select {
						case <-d2:
						case <-time.After(budget + 90*time.Second):
							c2.Process.Kill()
							<-d2
						}
					}
					var res2 Result
					lines2 := bytes.Split(bytes.TrimSpace(out2.Bytes()), []byte("\n"))
					if len(lines2) > 0 && json.Unmarshal(lines2[len(lines2)-1], &res2) == nil && res2.Stuck != nil && strings.Join(res2.Stuck.History, ";") == strings.Join(res.Stuck.History, ";") {
						atomic.StoreInt32(&pinned, 1)
						res.Violations = append(res.Violations, Violation{Property: id, Clause: id + "." + res.Stuck.Kind, Scenario: shards[i].Name, Seed: res.Stuck.Seed, History: res.Stuck.History,
							Detail: "the evaluation of this input does not complete: in two separate worker processes it neither returned within 30 s nor stayed below 6 GB", Params: "stuck"})
					} else {
						res.Incidents = append(res.Incidents, fmt.Sprintf("%s in shard %s was not reproduced by a second run: %s", res.Stuck.Kind, shards[i].Name, strings.Join(res.Stuck.History, "; ")))
					}
				} else if ok && res.Stuck != nil {
					// pin the hang to that one history: it must fail to complete twice, alone,
					// within 20 s each (six orders of magnitude above its normal cost)
					hj, _ := json.Marshal(res.Stuck)
					failures := 0
					for k := 0; k < 2; k++ {
						c := exec.Command(exe, "-one", id, tier, strconv.Itoa(i), string(hj))
						c.Env = append(os.Environ(), "GOMAXPROCS=1", "GOMEMLIMIT=5GiB")
						var o bytes.Buffer
						c.Stdout = &o
						d := make(chan error, 1)
						if c.Start() == nil {
							go func() { d <- c.Wait() }()
							select {
							case e := <-d:
								if e != nil || !strings.Contains(o.String(), "completed") {
									failures++
								}
							case <-time.After(20 * time.Second):
								c.Process.Kill()
								<-d
								failures++
							}
						}
					}
					if failures == 2 {
						atomic.StoreInt32(&pinned, 1)
						res.Violations = append(res.Violations, Violation{Property: id, Clause: id + "." + res.Stuck.Kind, Scenario: res.Stuck.Scenario, Seed: res.Stuck.Seed, History: res.Stuck.History,
							Detail: "this history does not complete: executed alone in a fresh process, twice, it crashed the process, did not finish within 20 s or did not stay below 4 GB", Params: "stuck"})
					}
				}
				mu.Lock()
				if ok {
					results[i] = &res
				}
				if werr != nil || !ok {
					msg := fmt.Sprintf("shard %s: worker ended abnormally (%v)", shards[i].Name, werr)
					if e := strings.TrimSpace(errb.String()); e != "" {
						if len(e) > 600 {
							e = e[:600]
						}
						msg += ": " + e
					}
					incidents = append(incidents, msg)
				}
				mu.Unlock()
			}
		}()
	}
	for _, i := range order {
		jobs <- i
	}
	close(jobs)
	wg.Wait()

	// aggregate
	known, _ := loadKnown(filepath.Join(verifDir(), "KNOWN_FINDINGS.txt"))
	cov := map[string]any{}
	var states, transitions, evals, distinct int64
	exhaustive := true
	var samples []any
	events := map[string]int64{}
	counters := map[string]int64{}
	allow := map[string]float64{}
	var table []map[string]any
	var viols []Violation
	vacuous := []string{}
	for i, r := range results {
		if r == nil {
			exhaustive = false
			table = append(table, map[string]any{"scenario": shards[i].Name, "completed": false})
			continue
		}
		states += r.States
		transitions += r.Transitions
		evals += r.Evaluations
		distinct += r.Distinct
		if !r.Exhaustive {
			exhaustive = false
		}
		for _, s := range r.Samples {
			if len(samples) < 12 {
				samples = append(samples, s)
			}
		}
		for k, v := range r.Events {
			events[k] += v
		}
		for k, v := range r.Counters {
			counters[k] += v
		}
		for k, v := range r.AllowanceUse {
			if v > allow[k] {
				allow[k] = v
			}
		}
		incidents = append(incidents, r.Incidents...)
		row := map[string]any{"scenario": r.Scenario, "states": r.States, "transitions": r.Transitions,
			"evaluations": r.Evaluations, "distinct_nontrivial": r.Distinct,
			"exhaustive": r.Exhaustive, "wall_s": round3(r.WallS)}
		if r.DepthTarget > 0 {
			row["depth_target"] = r.DepthTarget
			row["depth_completed"] = r.DepthCompleted
			row["alphabet"] = r.Alphabet
			row["seeds"] = r.Seeds
			row["states_per_depth"] = r.StatesPerDepth
			if !r.Exhaustive {
				row["partial_next_level"] = round3(r.PartialNext)
			}
		}
		if r.Note != "" {
			row["note"] = r.Note
		}
		table = append(table, row)
		viols = append(viols, r.Violations...)
		if r.States > 0 && r.Distinct <= 1 && r.DepthTarget > 0 {
			vacuous = append(vacuous, r.Scenario)
		}
	}
	// violations: confirm by replay (twice), match known findings, write replay files
	exit := 0
	reported := 0
	knownHit := map[string]bool{}
	os.MkdirAll(filepath.Join(outDir(), "replays"), 0o755)
	shardByName := map[string]*Shard{}
	shardIndex := map[string]int{}
	for i := range shards {
		shardByName[shards[i].Name] = &shards[i]
		shardIndex[shards[i].Name] = i
	}
	seenSig := map[string]bool{}
	hungShard := map[string]bool{}
	skippedAfterPin := 0
	for _, v := range viols {
		if seenSig[v.Signature()] {
			continue
		}
		seenSig[v.Signature()] = true
		// determinism: the same history must fail the same clause again, twice
		if sh := shardByName[v.Scenario]; sh != nil && sh.Replay != nil && v.Params != "stuck" {
			// (in a child process each time: a replay may itself hang or crash)
			if reported >= 10 {
				continue // enough has been reported; further violations are not examined
			}
			if atomic.LoadInt32(&pinned) != 0 {
				// a hang or crash has been pinned and confirmed: replaying other histories
				// of the same tree is likely to hang as well; they are not examined
				skippedAfterPin++
				continue
			}
			confirmed, incomplete := 0, 0
			idx := shardIndex[v.Scenario]
			hj, _ := json.Marshal(StuckHistory{Kind: "confirm", Scenario: v.Scenario, Seed: v.Seed, History: v.History})
			if hungShard[v.Scenario] {
				// a replay of this shard has already failed to complete twice (shards that
				// enumerate inputs replay as a whole): one report per shard is enough
				continue
			}
			for k := 0; k < 2; k++ {
				c := exec.Command(exe, "-one", id, tier, strconv.Itoa(idx), string(hj))
				c.Env = append(os.Environ(), "GOMAXPROCS=1", "GOMEMLIMIT=5GiB")
				var o bytes.Buffer
				c.Stdout = &o
				d := make(chan error, 1)
				if c.Start() != nil {
					incomplete++
					continue
				}
				go func() { d <- c.Wait() }()
				select {
				case <-d:
				case <-time.After(budget + 60*time.Second):
					c.Process.Kill()
					<-d
				}
				switch {
				case !strings.Contains(o.String(), "completed"):
					incomplete++
				case strings.Contains(o.String(), "failed-clause: "+v.Clause+"\n"):
					confirmed++
				}
			}
			if incomplete == 2 {
				hungShard[v.Scenario] = true
				// the history that violated a clause does not even complete when replayed alone
				v.Clause = v.Property + ".no-hang"
				v.Detail = "replayed alone in a fresh process, twice, this history did not complete (hang, crash or memory blow-up); it was first reported for: " + v.Detail
			} else if confirmed < 2 {
				// the same history must fail the same clause every time before it is believed
				incidents = append(incidents, fmt.Sprintf("INTERNAL: violation of %s in %s reproduced in %d of two replays (nondeterminism not owned) and is not reported; history: %s", v.Clause, v.Scenario, confirmed, strings.Join(v.History, "; ")))
				continue
			}
		}
		matched := false
		for _, k := range known {
			if k.Property != v.Property || (k.Clause != "" && k.Clause != v.Clause) {
				continue
			}
			pred := p.Predicates[k.Where]
			if k.Where != "" && pred == nil {
				continue
			}
			if pred == nil || pred(v) {
				matched = true
				key := k.Property + k.Clause + k.Where
				if !knownHit[key] {
					knownHit[key] = true
					fmt.Printf("KNOWN-FINDING: property=%s clause=%s where=%s %s\n", k.Property, k.Clause, k.Where, k.Text)
				}
				break
			}
		}
		if matched {
			continue
		}
		path := filepath.Join(outDir(), "replays", fmt.Sprintf("%s-%s.json", v.Property, v.Signature()))
		rep := map[string]any{"property": v.Property, "clause": v.Clause, "check": id, "tier": tier, "scenario": v.Scenario,
			"seed": v.Seed, "history": v.History, "detail": v.Detail,
			"replay_cmd": fmt.Sprintf("/verif/bin/check.sh --replay %s", path)}
		b, _ := json.MarshalIndent(rep, "", " ")
		os.WriteFile(path, append(b, '\n'), 0o644)
		if reported < 10 {
			fmt.Printf("VIOLATION property=%s replay=%s\n", v.Property, path)
			fmt.Printf("  clause=%s scenario=%s\n  history: %s\n  %s\n", v.Clause, v.Scenario, strings.Join(v.History, "; "), strings.ReplaceAll(v.Detail, "\n", "\n  "))
		}
		reported++
		exit = 1
	}
	if skippedAfterPin > 0 {
		incidents = append(incidents, fmt.Sprintf("%d further violation reports were not examined because a hang or crash had been pinned and confirmed", skippedAfterPin))
	}
	for k, v := range allow {
		if v > 0.5 {
			fmt.Printf("WARNING: %s uses %.0f%% of its tolerance\n", k, v*100)
		}
	}
	for _, s := range vacuous {
		fmt.Printf("WARNING: scenario %s reached at most one distinct non-trivial content\n", s)
	}
	for _, s := range incidents {
		fmt.Printf("WARNING: %s\n", s)
	}
	if len(incidents) > 0 {
		exhaustive = false
	}
	cov["states"] = states
	cov["transitions"] = transitions
	cov["traces_validated_against_impl"] = transitions
	cov["evaluations"] = evals
	cov["distinct_nontrivial"] = distinct
	cov["rule"] = p.Rule
	if len(samples) == 0 {
		samples = append(samples, "no sample recorded")
	}
	cov["samples"] = samples
	cov["exhaustive"] = exhaustive
	cov["scenarios"] = table
	if len(events) > 0 {
		cov["layout_events"] = events
	}
	if len(counters) > 0 {
		cov["counters"] = counters
	}
	if len(allow) > 0 {
		cov["worst_fraction_of_tolerance_used"] = allow
	}
	cov["vacuous_scenarios"] = vacuous
	cov["incidents"] = incidents
	cov["workers"] = ncpu
	cov["map_order_controlled"] = MapOrderControlled
	if p.Level != "model_checking" {
		delete(cov, "states")
		delete(cov, "transitions")
		delete(cov, "traces_validated_against_impl")
	}
	ev := evidence{PropertyID: id, Tier: tier, Seed: seed, Level: p.Level, Coverage: cov,
		Assumptions: p.Assumptions, WallS: round3(time.Since(start).Seconds()), Violations: reported}
	os.MkdirAll(filepath.Join(outDir(), "evidence"), 0o755)
	b, _ := json.MarshalIndent(ev, "", " ")
	os.WriteFile(filepath.Join(outDir(), "evidence", id+".json"), append(b, '\n'), 0o644)
	fmt.Printf("%s %s: scenarios=%d states=%d transitions=%d evaluations=%d distinct=%d exhaustive=%v violations=%d wall=%.1fs\n",
		id, tier, len(shards), states, transitions, evals, distinct, exhaustive, reported, time.Since(start).Seconds())
	return exit
}

func round3(x float64) float64 { return float64(int64(x*1000+0.5)) / 1000 }

// ReplayFile re-executes the history recorded in a replay file on the real
// code, with every oracle of its scenario, without the explorer.
func ReplayFile(path string) (property string, fails []Fail, err error) {
	b, err := os.ReadFile(path)
	if err != nil {
		return "", nil, err
	}
	var rep struct {
		Property, Clause, Check, Tier, Scenario, Seed string
		History                                       []string
	}
	if err := json.Unmarshal(b, &rep); err != nil {
		return "", nil, err
	}
	id := rep.Check
	if id == "" {
		id = rep.Property
	}
	p := Registry[id]
	if p == nil {
		return rep.Property, nil, fmt.Errorf("unknown property %s", id)
	}
	if rep.Scenario == "(building the scenarios)" {
		func() {
			defer func() {
				if r := recover(); r != nil {
					fails = append(fails, Fail{Clause: id + ".valid-configuration-refused", Detail: fmt.Sprintf("%v\n%s", r, trimStack(string(debug.Stack())))})
				}
			}()
			p.Shards(rep.Tier)
		}()
		return rep.Property, fails, nil
	}
	for _, tier := range []string{rep.Tier, "quick", "thorough"} {
		if tier == "" {
			continue
		}
		for _, sh := range p.Shards(tier) {
			if sh.Name != rep.Scenario || sh.Replay == nil {
				continue
			}
			fails, err := sh.Replay(rep.Seed, rep.History)
			return rep.Property, fails, err
		}
	}
	return rep.Property, nil, fmt.Errorf("scenario %s not found for %s", rep.Scenario, id)
}

func replayMain(path string) int {
	prop, fails, err := ReplayFile(path)
	if err != nil {
		fmt.Fprintln(os.Stderr, err)
		return 2
	}
	if len(fails) == 0 {
		fmt.Printf("replay of %s: every clause holds on this history\n", path)
		return 0
	}
	for _, f := range fails {
		fmt.Printf("VIOLATION property=%s replay=%s\n  clause=%s\n  %s\n", prop, path, f.Clause, strings.ReplaceAll(f.Detail, "\n", "\n  "))
	}
	return 1
}
