package mc

import (
	"encoding/json"
	"fmt"
	"hash/fnv"
	"os"
	"runtime"
	"runtime/debug"
	"sort"
	"strconv"
	"strings"
	"sync/atomic"
	"time"
)

// Fail is one oracle clause that did not hold in one state or transition.
type Fail struct {
	Clause string // e.g. "C04.content"
	Detail string
}

// Violation is a Fail pinned to the history that produced it.
type Violation struct {
	Property string   `json:"property"`
	Clause   string   `json:"clause"`
	Scenario string   `json:"scenario"`
	Seed     string   `json:"seed"`
	History  []string `json:"history"`
	Detail   string   `json:"detail"`
	Params   string   `json:"params,omitempty"`
}

func (v Violation) Signature() string {
	h := fnv.New64a()
	h.Write([]byte(v.Clause + "|" + v.Scenario + "|" + v.Seed + "|" + strings.Join(v.History, ";")))
	return fmt.Sprintf("%016x", h.Sum64())
}

// Op is one operation of a scenario's alphabet. Do applies it to every part of
// the world (real objects, reference models, twins). Writes is the set of slots
// whose observable state the operation is allowed to change; the observation of
// every other slot must be identical before and after (frame clause).
type Op[W any] struct {
	Name   string
	Do     func(w W)
	Writes uint32
}

type Seed[W any] struct {
	Name string
	Ops  []Op[W]
}

// Scenario closes the system: kinds, alphabet, seeds, oracle.
type Scenario[W any] struct {
	Name     string
	Property string
	Fresh    func() W
	Ops      []Op[W]
	Seeds    []Seed[W]
	Depth    int
	Slots    int
	// Dump writes the concrete state of the real objects and the canonical
	// model state. It must not call any method of the code under test.
	Dump func(w W, d *Dumper)
	// Check runs the state oracle on a disposable instance (it may call
	// observers that reorganise the object). It returns one digest per slot of
	// the real observation (used by the frame clause) and the failed clauses.
	Check func(w W) (obs []uint64, fails []Fail)
	// Explain is called only on a frame violation to render the observation of
	// a slot in full.
	Explain func(w W, slot int) string
	// FrameClause, if non-empty, enables the frame clause under that name.
	FrameClause string
	// Abstract returns a digest of the abstract (model) content, used to count
	// distinct contents and to decide non-triviality.
	Abstract func(w W) (digest uint64, nontrivial bool)
	// Events inspects the concrete state across a transition (after Dump) and
	// reports layout events; may be nil.
	Events func(w W, ev map[string]int64)
	// MaxStates caps the visited set (memory guard); 0 = default.
	MaxStates int
	// LastOps, if non-nil, restricts the alphabet at the last level to these
	// operation indexes (the operations the property is about), so that every
	// state of depth Depth-1 still receives each of them.
	LastOps []int
	// Transition, if non-nil, is a differential oracle over one transition: it
	// receives two fresh replays, one of the parent history and one extended by
	// the operation, and is evaluated for every explored transition whose
	// operation satisfies WantTransition.
	Transition     func(parent, child W, op int) []Fail
	WantTransition func(op int) bool
}

type state struct {
	parent int32
	op     int16 // index into Ops; -1 for roots
	seed   int16
	depth  int8
	obs    []uint64
}

// Result is what one exploration covered.
type Result struct {
	Scenario       string             `json:"scenario"`
	Property       string             `json:"property"`
	States         int64              `json:"states"`
	Transitions    int64              `json:"transitions"`
	Evaluations    int64              `json:"evaluations"`
	Distinct       int64              `json:"distinct_nontrivial"`
	DepthTarget    int                `json:"depth_target"`
	DepthCompleted int                `json:"depth_completed"`
	PartialNext    float64            `json:"partial_next_level"`
	Exhaustive     bool               `json:"exhaustive"`
	StatesPerDepth []int64            `json:"states_per_depth,omitempty"`
	Alphabet       int                `json:"alphabet"`
	Seeds          int                `json:"seeds"`
	Violations     []Violation        `json:"violations,omitempty"`
	Samples        []string           `json:"samples,omitempty"`
	Events         map[string]int64   `json:"events,omitempty"`
	Counters       map[string]int64   `json:"counters,omitempty"`
	AllowanceUse   map[string]float64 `json:"allowance_use,omitempty"`
	Incidents      []string           `json:"incidents,omitempty"`
	WallS          float64            `json:"wall_s"`
	Note           string             `json:"note,omitempty"`
	// Stuck names the history in flight when the watchdog fired.
	Stuck *StuckHistory `json:"stuck,omitempty"`
}

// StuckHistory is a transition that did not finish (hang or memory blow-up).
type StuckHistory struct {
	Kind     string   `json:"kind"`
	Scenario string   `json:"scenario"`
	Seed     string   `json:"seed"`
	History  []string `json:"history"`
}

func (r *Result) Count(name string, n int64) {
	if r.Counters == nil {
		r.Counters = map[string]int64{}
	}
	r.Counters[name] += n
}

func (r *Result) Allow(name string, frac float64) {
	if r.AllowanceUse == nil {
		r.AllowanceUse = map[string]float64{}
	}
	if frac > r.AllowanceUse[name] {
		r.AllowanceUse[name] = frac
	}
}

var sideAllow = map[string]float64{}
var sideCount = map[string]int64{}

// Allow records the worst observed fraction of a tolerance (reported in the
// evidence; more than 50% prints a WARNING).
func Allow(name string, frac float64) {
	if frac > sideAllow[name] {
		sideAllow[name] = frac
	}
}

// Count adds to a named counter of the evidence.
func Count(name string, n int64) { sideCount[name] += n }

// FlushSide moves the side counters into a result.
func FlushSide(res *Result) {
	for k, v := range sideAllow {
		res.Allow(k, v)
	}
	for k, v := range sideCount {
		res.Count(k, v)
	}
	sideAllow, sideCount = map[string]float64{}, map[string]int64{}
}

// Current is updated before every transition so that a watchdog can name the
// history being executed if it hangs.
var Current struct {
	Scenario string
	Seed     string
	History  []string
	Tick     int64
}

const maxViolationsPerScenario = 5

// Explore runs the breadth-first search to sc.Depth or until the deadline.
func Explore[W any](sc *Scenario[W], deadline time.Time) *Result {
	start := time.Now()
	if d, err := strconv.Atoi(os.Getenv("VERIF_DEPTH_DELTA")); err == nil && d != 0 {
		// development aid (mutation campaigns run a shallower first pass); the
		// registered commands never set it and the evidence records the depth used
		c := *sc
		c.Depth = max(1, sc.Depth+d)
		sc = &c
	}
	res := &Result{Scenario: sc.Name, Property: sc.Property, DepthTarget: sc.Depth,
		Alphabet: len(sc.Ops), Seeds: len(sc.Seeds), Events: map[string]int64{}}
	maxStates := sc.MaxStates
	if maxStates == 0 {
		maxStates = 6_000_000
	}
	visited := make(map[[16]byte]int32, 1<<16)
	var states []state
	abstract := map[uint64]struct{}{}
	d := NewDumper()
	seeds := sc.Seeds
	if len(seeds) == 0 {
		seeds = []Seed[W]{{Name: "empty"}}
	}
	seenFail := map[string]bool{}

	historyOf := func(id int32) (seed int, ops []int) {
		for id >= 0 {
			s := &states[id]
			if s.op >= 0 {
				ops = append(ops, int(s.op))
			}
			seed = int(s.seed)
			id = s.parent
		}
		for i, j := 0, len(ops)-1; i < j; i, j = i+1, j-1 {
			ops[i], ops[j] = ops[j], ops[i]
		}
		return
	}
	names := func(seed int, ops []int, extra int) []string {
		var out []string
		for _, o := range seeds[seed].Ops {
			out = append(out, o.Name)
		}
		for _, o := range ops {
			out = append(out, sc.Ops[o].Name)
		}
		if extra >= 0 {
			out = append(out, sc.Ops[extra].Name)
		}
		return out
	}
	report := func(seed int, ops []int, extra int, f Fail) {
		key := f.Clause
		if seenFail[key] && len(res.Violations) >= maxViolationsPerScenario {
			return
		}
		if len(res.Violations) >= 4*maxViolationsPerScenario {
			return
		}
		seenFail[key] = true
		prop := sc.Property
		if i := strings.IndexByte(f.Clause, '.'); i > 0 {
			prop = f.Clause[:i]
		}
		res.Violations = append(res.Violations, Violation{Property: prop, Clause: f.Clause, Scenario: sc.Name,
			Seed: seeds[seed].Name, History: names(seed, ops, extra), Detail: f.Detail})
	}
	build := func(seed int, ops []int, extra int) W {
		w := sc.Fresh()
		for _, o := range seeds[seed].Ops {
			o.Do(w)
		}
		for _, o := range ops {
			sc.Ops[o].Do(w)
		}
		if extra >= 0 {
			sc.Ops[extra].Do(w)
		}
		return w
	}

	// visit executes one history on fresh objects and files the resulting state.
	// It returns the state id, or -1 if the execution itself was a violation.
	visit := func(parent int32, seed int, ops []int, extra int, depth int) (id int32) {
		id = -1
		Current.Scenario, Current.Seed = sc.Name, seeds[seed].Name
		Current.History = nil // rendered lazily by the watchdog from the fields below
		currentOps, currentExtra, currentSeed = ops, extra, seed
		atomic.AddInt64(&Current.Tick, 1)
		if journal != nil {
			writeJournal(sc.Name, seeds[seed].Name, names(seed, ops, extra))
		}
		defer func() {
			if r := recover(); r != nil {
				stack := string(debug.Stack())
				report(seed, ops, extra, Fail{Clause: sc.Property + ".no-panic",
					Detail: fmt.Sprintf("panic: %v\n%s", r, trimStack(stack))})
				id = -1
			}
		}()
		w := build(seed, ops, extra)
		res.Transitions++
		d.Reset()
		sc.Dump(w, d)
		key := d.Sum()
		if sid, ok := visited[key]; ok {
			id = sid
		} else {
			if sc.Events != nil {
				sc.Events(w, res.Events)
			}
			if sc.Abstract != nil {
				dg, nt := sc.Abstract(w)
				if nt {
					abstract[dg] = struct{}{}
				}
			}
			obs, fails := sc.Check(w)
			res.Evaluations++
			for _, f := range fails {
				report(seed, ops, extra, f)
			}
			id = int32(len(states))
			visited[key] = id
			states = append(states, state{parent: parent, op: int16(extra), seed: int16(seed), depth: int8(depth), obs: obs})
			for len(res.StatesPerDepth) <= depth {
				res.StatesPerDepth = append(res.StatesPerDepth, 0)
			}
			res.StatesPerDepth[depth]++
		}
		if sc.Transition != nil && parent >= 0 && extra >= 0 && id >= 0 && (sc.WantTransition == nil || sc.WantTransition(extra)) {
			for _, f := range sc.Transition(build(seed, ops, -1), build(seed, ops, extra), extra) {
				report(seed, ops, extra, f)
			}
			res.Count("transition_oracle_evaluations", 1)
		}
		// frame clause: slots the operation may not write keep their observation
		if sc.FrameClause != "" && parent >= 0 && extra >= 0 && id >= 0 {
			po, co := states[parent].obs, states[id].obs
			for slot := 0; slot < sc.Slots && slot < len(po) && slot < len(co); slot++ {
				if sc.Ops[extra].Writes&(1<<uint(slot)) != 0 {
					continue
				}
				if po[slot] != co[slot] {
					det := fmt.Sprintf("slot %d observed differently after an operation that may not change it", slot)
					if sc.Explain != nil {
						before := sc.Explain(build(seed, ops, -1), slot)
						after := sc.Explain(build(seed, ops, extra), slot)
						det += "\nbefore: " + before + "\nafter:  " + after
					}
					report(seed, ops, extra, Fail{Clause: sc.FrameClause, Detail: det})
				}
			}
		}
		return id
	}

	InFlight = func() string {
		return "[" + sc.Name + "] " + strings.Join(names(currentSeed, currentOps, currentExtra), "; ")
	}
	InFlightOps = func() (string, []string) {
		return seeds[currentSeed].Name, names(currentSeed, currentOps, currentExtra)
	}

	// roots
	var frontier []int32
	for si := range seeds {
		id := visit(-1, si, nil, -1, 0)
		if id >= 0 && states[id].depth == 0 && states[id].parent == -1 && int(states[id].seed) == si {
			frontier = append(frontier, id)
		}
	}
	res.Exhaustive = true
	res.DepthCompleted = 0
	for depth := 1; depth <= sc.Depth; depth++ {
		var next []int32
		stopped := false
		for fi, sid := range frontier {
			if fi&15 == 0 && (time.Now().After(deadline) || len(states) > maxStates) {
				res.PartialNext = float64(fi) / float64(len(frontier))
				if len(states) > maxStates {
					res.Incidents = append(res.Incidents, fmt.Sprintf("state cap %d reached at depth %d", maxStates, depth))
				}
				stopped = true
				break
			}
			seed, ops := historyOf(sid)
			for oi := range sc.Ops {
				if depth == sc.Depth && sc.LastOps != nil && !inInts(sc.LastOps, oi) {
					continue
				}
				before := len(states)
				id := visit(sid, seed, ops, oi, depth)
				if id >= 0 && int(id) >= before {
					next = append(next, id)
				}
			}
		}
		if stopped {
			res.Exhaustive = false
			break
		}
		res.DepthCompleted = depth
		frontier = next
		if len(frontier) == 0 {
			// closed state space: nothing new at this depth, deeper levels add nothing
			res.DepthCompleted = sc.Depth
			res.Note = fmt.Sprintf("state space closed at depth %d", depth)
			break
		}
	}
	res.States = int64(len(states))
	res.Distinct = int64(len(abstract))
	// samples: a few of the deepest histories
	step := len(states)/3 + 1
	for i := len(states) - 1; i >= 0 && len(res.Samples) < 3; i -= step {
		seed, ops := historyOf(int32(i))
		res.Samples = append(res.Samples, fmt.Sprintf("[%s] seed=%s: %s", sc.Name, seeds[seed].Name, strings.Join(names(seed, ops, -1), "; ")))
	}
	sort.Strings(res.Samples)
	FlushSide(res)
	res.WallS = time.Since(start).Seconds()
	runtime.GC()
	return res
}

// journal: when a worker died without a verdict (a crash the runtime does not
// let the harness recover from: stack overflow, fatal error, exit), the driver
// runs the shard once more with VERIF_JOURNAL set; the history about to be
// executed is then written over the start of that file before every transition,
// so that the transition in flight at the time of death can be named.
var journal *os.File

const journalRecord = 8192

func init() {
	if p := os.Getenv("VERIF_JOURNAL"); p != "" {
		journal, _ = os.OpenFile(p, os.O_CREATE|os.O_WRONLY|os.O_TRUNC, 0o644)
	}
}

func writeJournal(scenario, seed string, history []string) {
	b, _ := json.Marshal(StuckHistory{Kind: "no-crash", Scenario: scenario, Seed: seed, History: history})
	rec := make([]byte, journalRecord)
	for i := range rec {
		rec[i] = ' '
	}
	if len(b) < journalRecord-1 {
		copy(rec, b)
		rec[journalRecord-1] = '\n'
		journal.WriteAt(rec, 0)
	}
}

func inInts(xs []int, x int) bool {
	for _, y := range xs {
		if y == x {
			return true
		}
	}
	return false
}

var (
	currentOps   []int
	currentExtra int
	currentSeed  int
)

func trimStack(s string) string {
	lines := strings.Split(s, "\n")
	var keep []string
	for i := 0; i < len(lines); i++ {
		l := lines[i]
		if strings.Contains(l, "sketches-go") || strings.Contains(l, "/repo/") {
			keep = append(keep, strings.TrimSpace(l))
		}
		if len(keep) >= 8 {
			break
		}
	}
	return strings.Join(keep, "\n")
}

// RunHistory executes a single history given by operation names and returns
// the failures of the state oracle at its end and of every prefix (used by
// replay and by minimisation).
func RunHistory[W any](sc *Scenario[W], seedName string, history []string) (fails []Fail, err error) {
	byName := map[string]*Op[W]{}
	indexOf := map[*Op[W]]int{}
	for i := range sc.Ops {
		byName[sc.Ops[i].Name] = &sc.Ops[i]
		indexOf[&sc.Ops[i]] = i
	}
	var seed *Seed[W]
	for i := range sc.Seeds {
		if sc.Seeds[i].Name == seedName {
			seed = &sc.Seeds[i]
		}
		for j := range sc.Seeds[i].Ops {
			o := &sc.Seeds[i].Ops[j]
			if _, ok := byName[o.Name]; !ok {
				byName[o.Name] = o
			}
		}
	}
	_ = seed
	var ops []*Op[W]
	for _, n := range history {
		o, ok := byName[n]
		if !ok {
			return nil, fmt.Errorf("operation %q is not in the alphabet of scenario %s", n, sc.Name)
		}
		ops = append(ops, o)
	}
	run := func(n int) (obs []uint64, fs []Fail) {
		defer func() {
			if r := recover(); r != nil {
				fs = append(fs, Fail{Clause: sc.Property + ".no-panic", Detail: fmt.Sprintf("panic: %v\n%s", r, trimStack(string(debug.Stack())))})
			}
		}()
		w := sc.Fresh()
		for _, o := range ops[:n] {
			o.Do(w)
		}
		return sc.Check(w)
	}
	var prev []uint64
	for n := 0; n <= len(ops); n++ {
		obs, fs := run(n)
		for _, f := range fs {
			fails = append(fails, Fail{Clause: f.Clause, Detail: fmt.Sprintf("after %d operations: %s", n, f.Detail)})
		}
		if sc.FrameClause != "" && n > 0 && prev != nil && obs != nil {
			for slot := 0; slot < sc.Slots && slot < len(prev) && slot < len(obs); slot++ {
				if ops[n-1].Writes&(1<<uint(slot)) == 0 && prev[slot] != obs[slot] {
					fails = append(fails, Fail{Clause: sc.FrameClause, Detail: fmt.Sprintf("after %d operations: slot %d changed by %s", n, slot, ops[n-1].Name)})
				}
			}
		}
		prev = obs
		// the differential transition oracle, on two fresh replays
		if sc.Transition != nil && n > 0 {
			if oi, ok := indexOf[ops[n-1]]; ok && (sc.WantTransition == nil || sc.WantTransition(oi)) {
				func() {
					defer func() {
						if r := recover(); r != nil {
							fails = append(fails, Fail{Clause: sc.Property + ".no-panic", Detail: fmt.Sprintf("panic: %v", r)})
						}
					}()
					mk := func(k int) W {
						w := sc.Fresh()
						for _, o := range ops[:k] {
							o.Do(w)
						}
						return w
					}
					for _, f := range sc.Transition(mk(n-1), mk(n), oi) {
						fails = append(fails, Fail{Clause: f.Clause, Detail: fmt.Sprintf("after %d operations: %s", n, f.Detail)})
					}
				}()
			}
		}
		// (every prefix is judged: a later prefix may fail another clause, and the
		// driver asks for the clause it saw)
		if len(fails) > 40 {
			break
		}
	}
	return fails, nil
}

// ShardOf wraps a scenario as a shard of a property.
func ShardOf[W any](sc *Scenario[W], weight int) Shard {
	return Shard{Name: sc.Name, Weight: weight,
		Run:    func(deadline time.Time) *Result { return Explore(sc, deadline) },
		Replay: func(seed string, history []string) ([]Fail, error) { return RunHistory(sc, seed, history) }}
}
