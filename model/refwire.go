package model

// refwire is a decoder for the binary sketch format written ONLY from the
// comments of ddsketch/encoding/flag.go and ddsketch/encoding/encoding.go. It
// shares no code with the implementation and reports block boundaries.

import (
	"fmt"
	"math"
	"math/bits"
)

type WireBin struct {
	Index int64
	Count float64
}

type WireBlock struct {
	Start, End int // byte range [Start, End) including the flag byte
	Flag       byte
	Kind       string // zero | count | sum | min | max | mapping | positive | negative
	Layout     int    // store blocks: 1 deltas+counts, 2 deltas, 3 contiguous
	Bins       []WireBin
	Value      float64 // feature blocks
	MapKind    int     // mapping blocks: 0 log, 1 linear, 2 quadratic, 3 cubic, 4 quartic
	Gamma      float64
	Offset     float64
}

type WireError struct {
	Pos       int // offset of the block in which the problem lies
	Reason    string
	Truncated bool // the stream ends inside a block
}

func (e *WireError) Error() string { return fmt.Sprintf("at byte %d: %s", e.Pos, e.Reason) }

type wireReader struct {
	b   []byte
	pos int
}

var errShort = fmt.Errorf("short")

// "7 bits at a time, starting with the least significant bits; the most
// significant bit of each byte is the continuation bit; at most 9 bytes, the
// last one has no continuation bit and encodes 8 bits"
func (r *wireReader) uvarint() (uint64, error) {
	var x uint64
	for i := 0; i < 9; i++ {
		if r.pos >= len(r.b) {
			return 0, errShort
		}
		c := r.b[r.pos]
		r.pos++
		if i == 8 {
			x |= uint64(c) << 56
			return x, nil
		}
		x |= uint64(c&0x7f) << (7 * uint(i))
		if c&0x80 == 0 {
			return x, nil
		}
	}
	return x, nil
}

// zig-zag
func (r *wireReader) varint() (int64, error) {
	u, err := r.uvarint()
	if err != nil {
		return 0, err
	}
	if u&1 == 0 {
		return int64(u >> 1), nil
	}
	return ^int64(u >> 1), nil
}

// "+1 as floating point, transmuted to integer, minus Float64bits(1), rotated
// left by 6, then encoded like a varuint but starting with the most
// significant bits; at most 9 bytes"
func (r *wireReader) varfloat() (float64, error) {
	var x uint64
	shift := 57
	for i := 0; i < 9; i++ {
		if r.pos >= len(r.b) {
			return 0, errShort
		}
		c := r.b[r.pos]
		r.pos++
		if i == 8 {
			x |= uint64(c)
			break
		}
		x |= uint64(c&0x7f) << uint(shift)
		shift -= 7
		if c&0x80 == 0 {
			break
		}
	}
	v := bits.RotateLeft64(x, -6) + math.Float64bits(1)
	return math.Float64frombits(v) - 1, nil
}

func (r *wireReader) float64le() (float64, error) {
	if r.pos+8 > len(r.b) {
		r.pos = len(r.b)
		return 0, errShort
	}
	var u uint64
	for i := 0; i < 8; i++ {
		u |= uint64(r.b[r.pos+i]) << (8 * uint(i))
	}
	r.pos += 8
	return math.Float64frombits(u), nil
}

// ParseWire splits a stream into its blocks. On a malformed or truncated
// stream it returns the complete blocks before the problem and a *WireError.
func ParseWire(b []byte) ([]WireBlock, *WireError) {
	r := &wireReader{b: b}
	var out []WireBlock
	for r.pos < len(b) {
		start := r.pos
		flag := b[r.pos]
		r.pos++
		typ, sub := flag&3, flag>>2
		blk := WireBlock{Start: start, Flag: flag}
		short := func() ([]WireBlock, *WireError) {
			return out, &WireError{Pos: start, Reason: "stream ends inside a block", Truncated: true}
		}
		switch typ {
		case 0: // sketch features
			switch sub {
			case 1, 0x28:
				v, err := r.varfloat()
				if err != nil {
					return short()
				}
				blk.Value = v
				blk.Kind = map[byte]string{1: "zero", 0x28: "count"}[sub]
			case 0x21, 0x22, 0x23:
				v, err := r.float64le()
				if err != nil {
					return short()
				}
				blk.Value = v
				blk.Kind = map[byte]string{0x21: "sum", 0x22: "min", 0x23: "max"}[sub]
			default:
				return out, &WireError{Pos: start, Reason: fmt.Sprintf("undefined sketch feature flag %#02x", flag)}
			}
		case 2: // index mapping
			if sub > 4 {
				return out, &WireError{Pos: start, Reason: fmt.Sprintf("undefined index mapping flag %#02x", flag)}
			}
			g, err := r.float64le()
			if err != nil {
				return short()
			}
			o, err := r.float64le()
			if err != nil {
				return short()
			}
			blk.Kind, blk.MapKind, blk.Gamma, blk.Offset = "mapping", int(sub), g, o
		case 1, 3:
			blk.Kind = "positive"
			if typ == 3 {
				blk.Kind = "negative"
			}
			if sub < 1 || sub > 3 {
				return out, &WireError{Pos: start, Reason: fmt.Sprintf("undefined bin encoding flag %#02x", flag)}
			}
			blk.Layout = int(sub)
			n, err := r.uvarint()
			if err != nil {
				return short()
			}
			switch sub {
			case 1:
				var idx int64
				for i := uint64(0); i < n; i++ {
					d, err := r.varint()
					if err != nil {
						return short()
					}
					c, err := r.varfloat()
					if err != nil {
						return short()
					}
					idx += d
					blk.Bins = append(blk.Bins, WireBin{idx, c})
				}
			case 2:
				var idx int64
				for i := uint64(0); i < n; i++ {
					d, err := r.varint()
					if err != nil {
						return short()
					}
					idx += d
					blk.Bins = append(blk.Bins, WireBin{idx, 1})
				}
			case 3:
				first, err := r.varint()
				if err != nil {
					return short()
				}
				stride, err := r.varint()
				if err != nil {
					return short()
				}
				idx := first
				for i := uint64(0); i < n; i++ {
					c, err := r.varfloat()
					if err != nil {
						return short()
					}
					blk.Bins = append(blk.Bins, WireBin{idx, c})
					idx += stride
				}
			}
		}
		blk.End = r.pos
		out = append(out, blk)
	}
	return out, nil
}

// WireContent is what the documentation assigns to a sequence of blocks.
type WireContent struct {
	Pos, Neg   map[int]float64
	Zero       float64
	HasMapping bool
	MapKind    int
	Gamma      float64
	Offset     float64
	Mappings   int
	Count, Sum float64
	Min, Max   float64
	HasStats   bool
}

func ContentOf(blocks []WireBlock) WireContent {
	c := WireContent{Pos: map[int]float64{}, Neg: map[int]float64{}, Min: math.Inf(1), Max: math.Inf(-1)}
	for _, b := range blocks {
		switch b.Kind {
		case "zero":
			c.Zero += b.Value
		case "count":
			c.Count += b.Value
			c.HasStats = true
		case "sum":
			c.Sum += b.Value
			c.HasStats = true
		case "min":
			c.Min = math.Min(c.Min, b.Value)
			c.HasStats = true
		case "max":
			c.Max = math.Max(c.Max, b.Value)
			c.HasStats = true
		case "mapping":
			c.HasMapping = true
			c.Mappings++
			c.MapKind, c.Gamma, c.Offset = b.MapKind, b.Gamma, b.Offset
		case "positive":
			for _, bin := range b.Bins {
				if bin.Count != 0 {
					c.Pos[int(bin.Index)] += bin.Count
				}
			}
		case "negative":
			for _, bin := range b.Bins {
				if bin.Count != 0 {
					c.Neg[int(bin.Index)] += bin.Count
				}
			}
		}
	}
	return c
}

// --- an independent encoder for the grammar-driven direction of C07 ---

func AppendUvarint(b []byte, v uint64) []byte {
	for i := 0; i < 8; i++ {
		if v < 0x80 {
			return append(b, byte(v))
		}
		b = append(b, byte(v&0x7f)|0x80)
		v >>= 7
	}
	return append(b, byte(v))
}

func AppendVarint(b []byte, v int64) []byte {
	u := uint64(v) << 1
	if v < 0 {
		u = ^u
	}
	return AppendUvarint(b, u)
}

func AppendVarfloat(b []byte, v float64) []byte {
	x := bits.RotateLeft64(math.Float64bits(v+1)-math.Float64bits(1), 6)
	for i := 0; i < 8; i++ {
		c := byte(x >> 57)
		x <<= 7
		if x == 0 {
			return append(b, c)
		}
		b = append(b, c|0x80)
	}
	return append(b, byte(x>>56))
}

func AppendFloat64LE(b []byte, v float64) []byte {
	u := math.Float64bits(v)
	for i := 0; i < 8; i++ {
		b = append(b, byte(u>>(8*uint(i))))
	}
	return b
}
