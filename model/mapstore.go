// Package model holds the reference models the implementation is compared
// with. They are deliberately boring.
package model

import (
	"math"
	"sort"
)

// MapStore is the mathematical map index -> accumulated weight, optionally
// bounded: with N > 0 every key beyond the collapsing edge is folded into the
// edge key after every mutation (foldstore of DESIGN.md section 3).
type MapStore struct {
	M map[int]float64
	// N == 0: unbounded. Lowest: fold keys < max-N+1 into max-N+1. Otherwise
	// fold keys > min+N-1 into min+N-1.
	N      int
	Lowest bool
	// Folded records that some weight of this content's history was folded
	// (so the true values behind it are no longer within alpha of their bins).
	Folded bool
	// Inherited: some of that folding happened in another store before the
	// content was merged in (the folded bin is then not necessarily the edge).
	Inherited bool
}

func NewMapStore() *MapStore { return &MapStore{M: map[int]float64{}} }

func NewFoldStore(n int, lowest bool) *MapStore {
	return &MapStore{M: map[int]float64{}, N: n, Lowest: lowest}
}

func (s *MapStore) Add(i int, w float64) {
	if w == 0 {
		return
	}
	s.M[i] += w
	s.fold()
}

func (s *MapStore) fold() {
	if s.N <= 0 || len(s.M) == 0 {
		return
	}
	lo, hi := s.minMax()
	if s.Lowest {
		edge := hi - s.N + 1
		if lo >= edge {
			return
		}
		s.Folded = true
		var acc float64
		for k, w := range s.M {
			if k < edge {
				acc += w
				delete(s.M, k)
			}
		}
		s.M[edge] += acc
	} else {
		edge := lo + s.N - 1
		if hi <= edge {
			return
		}
		s.Folded = true
		var acc float64
		for k, w := range s.M {
			if k > edge {
				acc += w
				delete(s.M, k)
			}
		}
		s.M[edge] += acc
	}
}

func (s *MapStore) minMax() (lo, hi int) {
	lo, hi = math.MaxInt, math.MinInt
	for k := range s.M {
		if k < lo {
			lo = k
		}
		if k > hi {
			hi = k
		}
	}
	return
}

func (s *MapStore) MergeFrom(o *MapStore) {
	// the union is order-independent because folding is monotone in the extreme
	for _, k := range o.Keys() {
		s.M[k] += o.M[k]
	}
	if o.Folded {
		s.Folded = true
		s.Inherited = true
	}
	s.fold()
}

func (s *MapStore) Clear() { s.M = map[int]float64{}; s.Folded = false; s.Inherited = false }

func (s *MapStore) Scale(w float64) {
	for k := range s.M {
		s.M[k] *= w
	}
}

func (s *MapStore) CopyInto(dst *MapStore) {
	dst.M = map[int]float64{}
	for k, w := range s.M {
		dst.M[k] = w
	}
	dst.Folded = s.Folded
	dst.Inherited = s.Inherited
	dst.fold()
}

func (s *MapStore) Keys() []int {
	ks := make([]int, 0, len(s.M))
	for k := range s.M {
		ks = append(ks, k)
	}
	sort.Ints(ks)
	return ks
}

func (s *MapStore) Total() float64 {
	var t float64
	for _, k := range s.Keys() {
		t += s.M[k]
	}
	return t
}

func (s *MapStore) Empty() bool { return len(s.M) == 0 }

func (s *MapStore) Min() (int, bool) {
	if len(s.M) == 0 {
		return 0, false
	}
	lo, _ := s.minMax()
	return lo, true
}

func (s *MapStore) Max() (int, bool) {
	if len(s.M) == 0 {
		return 0, false
	}
	_, hi := s.minMax()
	return hi, true
}

// KeyAtRank: first key whose cumulative weight exceeds max(rank, 0), else the
// largest key.
func (s *MapStore) KeyAtRank(rank float64) int {
	ks := s.Keys()
	return KeyAtRankSorted(ks, s.M, rank)
}

func KeyAtRankSorted(ks []int, m map[int]float64, rank float64) int {
	if rank < 0 {
		rank = 0
	}
	var c float64
	for _, k := range ks {
		c += m[k]
		if c > rank {
			return k
		}
	}
	return ks[len(ks)-1]
}

// Ranks returns the rank probes for this content: every cumulative boundary,
// the boundary plus and minus half the smallest weight, -1, the total and
// beyond. Contents of more than 8 keys are probed at their first three, two
// middle and last three boundaries.
func (s *MapStore) Ranks() []float64 {
	ks := s.Keys()
	if len(ks) == 0 {
		return nil
	}
	small := math.Inf(1)
	for _, k := range ks {
		if s.M[k] < small {
			small = s.M[k]
		}
	}
	h := small / 2
	rs := []float64{-1, 0}
	var c float64
	n := len(ks)
	for j, k := range ks {
		c += s.M[k]
		if n > 8 && !(j < 3 || j >= n-3 || j == n/2 || j == n/2+1) {
			continue
		}
		rs = append(rs, c-h, c, c+h)
	}
	rs = append(rs, c+1)
	return rs
}
