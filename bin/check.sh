#!/bin/bash
# Rebuilds the checker from /repo's current working tree and runs one check.
#   bin/check.sh <property> <quick|thorough>
#   bin/check.sh --replay <file>
#   bin/check.sh --replay-test [file]   (the same as a plain `go test`, no explorer; default: all of replays/)
#   bin/check.sh --build            (setup: pre-build only)
# Exit codes: 0 = held on everything explored, 1 = VIOLATION line printed.
set -u
export GOFLAGS=-mod=mod GOPROXY=off GOSUMDB=off GOTOOLCHAIN=local
export VERIF_DIR="$(cd "$(dirname "$0")/.." && pwd)"
REPO="${VERIF_REPO:-/repo}"
cd "$VERIF_DIR" || exit 2
mkdir -p .build evidence replays
BIN="$VERIF_DIR/.build/check.$$"
MODFLAG=""
trap 'rm -f "$BIN" "$VERIF_DIR/.build/stderr.$$.log" "$VERIF_DIR/.build/build.$$.log" "$VERIF_DIR/.build/go.$$.mod" "$VERIF_DIR/.build/go.$$.sum"' EXIT
if [ "$REPO" != "/repo" ]; then
  # development aid: check another checkout (e.g. a scratch worktree with a seeded change)
  sed "s#=> /repo#=> $REPO#" go.mod > .build/go.$$.mod
  cp go.sum .build/go.$$.sum
  MODFLAG="-modfile=$VERIF_DIR/.build/go.$$.mod"
fi

overlay() {
  # development aid: VERIF_NO_OVERLAY=1 exercises the native fall-back (registered commands never set it)
  [ -n "${VERIF_NO_OVERLAY:-}" ] && return 1
  # Map iteration order is owned through a build overlay generated from the
  # working tree (DESIGN.md 2.5); cached by the hash of the package sources.
  [ -x .build/mapshim ] || go build -o .build/mapshim ./shim/mapshim 2>/dev/null || return 1
  local h
  h=$( (echo "$REPO"; cat "$REPO"/ddsketch/store/*.go shim/mapshim/main.go 2>/dev/null) | sha256sum | cut -c1-24) || return 1
  OV="$VERIF_DIR/.build/ov-$h"
  if [ ! -f "$OV/report.json" ]; then
    rm -rf "$OV"
    .build/mapshim "$REPO" "$OV" > "$OV.log" 2>&1 || { rm -rf "$OV"; return 1; }
    # keep the cache small
    ls -dt .build/ov-*/ 2>/dev/null | tail -n +12 | xargs -r rm -rf
  fi
  grep -q '"map_order_controlled": true' "$OV/report.json" || return 1
  return 0
}

build() {
  # the harness module replaces github.com/DataDog/sketches-go by /repo, so
  # this always compiles the repository's current working tree
  if overlay && go build $MODFLAG -tags verif -overlay "$OV/overlay.json" -o "$BIN" ./cmd/check 2> .build/build.$$.log; then
    return 0
  fi
  echo "WARNING: map iteration order is not controlled in this run (overlay unavailable); running natively" >&2
  if ! go build $MODFLAG -o "$BIN" ./cmd/check 2> .build/build.$$.log; then
    cat .build/build.$$.log >&2
    echo "BUILD-FAILED: the harness does not compile against the repository's working tree" >&2
    return 1
  fi
}
case "${1:-}" in
  --build) build || exit 2; exit 0 ;;
  --replay) build || exit 2; "$BIN" -replay "$2"; exit $? ;;
  --replay-test)
    [ -n "${2:-}" ] && export VERIF_REPLAY="$2"
    if overlay; then go test $MODFLAG -vet=off -count=1 -tags verif -overlay "$OV/overlay.json" -run TestReplay -v ./replaytest; else go test $MODFLAG -vet=off -count=1 -run TestReplay -v ./replaytest; fi
    [ $? -eq 0 ] && exit 0 || exit 1 ;;
  "") echo "usage: $0 <property> <quick|thorough> | --replay <file> | --build" >&2; exit 2 ;;
esac
build || exit 2
"$BIN" "$1" "${2:-quick}" 2> "$VERIF_DIR/.build/stderr.$$.log"
code=$?
cat "$VERIF_DIR/.build/stderr.$$.log" >&2
if [ $code -ge 2 ] && grep -q '^panic: \|^fatal error: ' "$VERIF_DIR/.build/stderr.$$.log"; then
  # the checker itself died at start-up: the library panics while its packages are
  # initialised (or in the driver), before any scenario could run
  OUTD="${VERIF_OUT:-$VERIF_DIR}"
  mkdir -p "$OUTD/replays"
  R="$OUTD/replays/$1-startup.json"
  python3 - "$1" "$VERIF_DIR/.build/stderr.$$.log" > "$R" <<'PY'
import json, sys
print(json.dumps({"property": sys.argv[1], "clause": sys.argv[1] + ".no-panic", "scenario": "(process start-up)", "history": [],
                  "detail": open(sys.argv[2]).read()[:4000]}, indent=1))
PY
  echo "VIOLATION property=$1 replay=$R"
  echo "  clause=$1.no-panic: the checker process panicked before any scenario ran (a panic while the library's packages are initialised kills every program that imports them)"
  rm -f "$VERIF_DIR/.build/stderr.$$.log"
  exit 1
fi
rm -f "$VERIF_DIR/.build/stderr.$$.log"
exit $code
