#!/bin/bash
# Rebuilds the checker from /repo's current working tree and runs one check.
#   bin/check.sh <property> <quick|thorough>
#   bin/check.sh --replay <file>
#   bin/check.sh --build            (setup: pre-build only)
# Exit codes: 0 = held on everything explored, 1 = VIOLATION line printed.
set -u
export GOFLAGS=-mod=mod GOPROXY=off GOSUMDB=off GOTOOLCHAIN=local
export VERIF_DIR="$(cd "$(dirname "$0")/.." && pwd)"
cd "$VERIF_DIR" || exit 2
mkdir -p .build evidence replays
BIN=".build/check.$$"
trap 'rm -f "$BIN"' EXIT
build() {
  # the harness module replaces github.com/DataDog/sketches-go by /repo, so
  # this always compiles the repository's current working tree
  if ! go build -o "$BIN" ./cmd/check 2> .build/build.$$.log; then
    cat .build/build.$$.log >&2
    rm -f .build/build.$$.log
    echo "BUILD-FAILED: the harness does not compile against /repo's working tree" >&2
    return 1
  fi
  rm -f .build/build.$$.log
}
case "${1:-}" in
  --build) build || exit 2; exit 0 ;;
  --replay) build || exit 2; "$BIN" -replay "$2"; exit $? ;;
  "") echo "usage: $0 <property> <quick|thorough> | --replay <file> | --build" >&2; exit 2 ;;
esac
build || exit 2
"$BIN" "$1" "${2:-quick}"
exit $?
